/* native replay for the integer getters: numget <getter> <literal> | --absent */
#include <stdio.h>
#include <string.h>
#include <inttypes.h>
#include <stdlib.h>
#include <unistd.h>
#include "libeconf.h"
int main(int argc, char **argv)
{
  econf_file *kf = NULL;
  if (argc < 3) return 2;
  if (!strcmp(argv[2], "--absent")) {
    char tmpl[] = "/var/tmp/verif.numget.XXXXXX";
    int fd = mkstemp(tmpl);
    if (write(fd, "k\n", 2) != 2) return 2;
    close(fd);
    econf_err e = econf_readFile(&kf, tmpl, " ", "#");
    unlink(tmpl);
    if (e) { printf("read failed %d\n", e); return 2; }
  } else {
    econf_newKeyFile(&kf, '=', '#');
    econf_setStringValue(kf, NULL, "k", argv[2]);
  }
  econf_err r = 0; long long sv = 0; unsigned long long uv = 0; int is_u = 0;
  if (!strcmp(argv[1], "getIntValueNum")) { int32_t v = 77; r = econf_getIntValue(kf, NULL, "k", &v); sv = v; }
  else if (!strcmp(argv[1], "getInt64ValueNum")) { int64_t v = 77; r = econf_getInt64Value(kf, NULL, "k", &v); sv = v; }
  else if (!strcmp(argv[1], "getUIntValueNum")) { uint32_t v = 77; r = econf_getUIntValue(kf, NULL, "k", &v); uv = v; is_u = 1; }
  else if (!strcmp(argv[1], "getUInt64ValueNum")) { uint64_t v = 77; r = econf_getUInt64Value(kf, NULL, "k", &v); uv = v; is_u = 1; }
  else if (!strcmp(argv[1], "getFloatValueNum")) { float v = 77; r = econf_getFloatValue(kf, NULL, "k", &v); sv = (long long)v; }
  else if (!strcmp(argv[1], "getDoubleValueNum")) { double v = 77; r = econf_getDoubleValue(kf, NULL, "k", &v); sv = (long long)v; }
  if (is_u) printf("RESULT code=%d value=%llu\n", r, uv);
  else printf("RESULT code=%d value=%lld\n", r, sv);
  econf_free(kf);
  return 0;
}
