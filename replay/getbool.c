/* native replay for the boolean getter: getbool <file with the value bytes> */
#include <stdio.h>
#include <string.h>
#include <stdlib.h>
#include "libeconf.h"
int main(int argc, char **argv)
{
  char buf[256] = {0};
  FILE *f = fopen(argv[1], "rb");
  size_t n = fread(buf, 1, sizeof buf - 1, f);
  fclose(f);
  buf[n] = 0;
  econf_file *kf = NULL;
  econf_newKeyFile(&kf, '=', '#');
  econf_setStringValue(kf, NULL, "k", buf);
  bool v = false;
  econf_err r = econf_getBoolValue(kf, NULL, "k", &v);
  char *after = NULL;
  econf_getStringValue(kf, NULL, "k", &after);
  printf("RESULT code=%d value=%d unchanged=%d\n", r, (int)v, after && !strcmp(after, buf));
  free(after);
  econf_free(kf);
  return 0;
}
