/* native replay for merge jobs: merge <BG> <OG> <bkeys> <okeys> <bkind> <okind> <tmpdir>
 * shapes are digit strings (0 group-less, 1 A, 2 B; "-" = empty), keys strings of x/y */
#include <stdio.h>
#include <string.h>
#include <stdlib.h>
#include "libeconf.h"
#include "keyfile.h"
static const char *G[3] = { NULL, "AB", "A" };
static int leading(const char *s) { int seen = 0; for (; *s; s++) { if (*s != '0') seen = 1; else if (seen) return 0; } return 1; }
static econf_file *build(const char *shape, const char *keys, int kind, const char *pfx, const char *dir)
{
  econf_file *ef = NULL;
  if (!strcmp(shape, "-")) shape = "";
  if (kind == 0 && leading(shape)) {
    char path[512]; snprintf(path, sizeof path, "%s/%s.conf", dir, pfx);
    FILE *f = fopen(path, "w"); char prev = '0';
    for (size_t i = 0; shape[i]; i++) {
      if (shape[i] != prev) { fprintf(f, "[%s]\n", G[shape[i] - '0']); prev = shape[i]; }
      fprintf(f, "%s=%s%zu\n", keys[i] == 'x' ? "x" : "xy", pfx, i);
    }
    fclose(f);
    if (econf_readFile(&ef, path, "=", "#")) { printf("READ-FAILED\n"); exit(3); }
    return ef;
  }
  econf_newKeyFile(&ef, '=', '#');
  for (size_t i = 0; shape[i]; i++) {
    char v[16]; snprintf(v, sizeof v, "%s%zu", pfx, i);
    econf_setStringValue(ef, G[shape[i] - '0'], keys[i] == 'x' ? "x" : "xy", v);
  }
  return ef;
}
int main(int argc, char **argv)
{
  if (argc < 8) return 2;
  econf_file *b = build(argv[1], argv[3], atoi(argv[5]), "b", argv[7]);
  econf_file *o = build(argv[2], argv[4], atoi(argv[6]), "o", argv[7]);
  econf_file *m = NULL;
  econf_err r = econf_mergeFiles(&m, b, o);
  printf("RC %d\n", r);
  if (m) for (size_t i = 0; i < m->length; i++)
    printf("M|%s|%s|%s\n", m->file_entry[i].group, m->file_entry[i].key, m->file_entry[i].value ? m->file_entry[i].value : "(null)");
  for (size_t i = 0; i < b->length; i++) printf("B|%s|%s|%s\n", b->file_entry[i].group, b->file_entry[i].key, b->file_entry[i].value);
  for (size_t i = 0; i < o->length; i++) printf("O|%s|%s|%s\n", o->file_entry[i].group, o->file_entry[i].key, o->file_entry[i].value);
  econf_free(m); econf_free(b); econf_free(o);
  return 0;
}
