/* native replay for parser scenarios:
 *   parser <file> <delim> <comment> <python 0|1> <join 0|1>
 * dumps the result code, the error location and every entry */
#include <stdio.h>
#include <string.h>
#include <stdlib.h>
#include <inttypes.h>
#include "libeconf.h"
#include "keyfile.h"
#include "getfilecontents.h"
int main(int argc, char **argv)
{
  if (argc < 6) return 2;
  econf_file *ef = NULL;
  char opts[64] = "";
  if (atoi(argv[4])) strcat(opts, "PYTHON_STYLE=1");
  if (atoi(argv[5])) { if (*opts) strcat(opts, ";"); strcat(opts, "JOIN_SAME_ENTRIES=1"); }
  econf_newKeyFile_with_options(&ef, opts);
  econf_err r = read_file_with_callback(&ef, argv[1], argv[2], argv[3], NULL, NULL);
  char *fn = NULL; uint64_t nr = 0;
  econf_errLocation(&fn, &nr);
  printf("RC %d LINE %" PRIu64 "\n", r, nr);
  free(fn);
  if (ef) {
    for (size_t i = 0; i < ef->length; i++) {
      struct file_entry *e = &ef->file_entry[i];
      printf("ENTRY|%s|%s|%s|%d|%" PRIu64 "|%s|%s\n", e->group, e->key, e->value ? e->value : "(null)",
             e->quotes, e->line_number, e->comment_before_key ? e->comment_before_key : "(null)",
             e->comment_after_value ? e->comment_after_value : "(null)");
      /* exercise the getters the way a client would (C04) */
      char *s = NULL; bool b; int32_t i32; double d;
      econf_getStringValue(ef, e->group, e->key, &s); free(s);
      econf_getBoolValue(ef, e->group, e->key, &b);
      econf_getIntValue(ef, e->group, e->key, &i32);
      econf_getDoubleValue(ef, e->group, e->key, &d);
    }
    econf_free(ef);
  }
  return 0;
}
