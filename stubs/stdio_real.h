#pragma once
#include <stddef.h>
#ifndef FS_MAXLINES
#define FS_MAXLINES 4
#endif
/* ghost file: the harness provides up to FS_MAXLINES lines; getline hands
 * them out one by one, each in a buffer of exactly len+1 bytes */
struct fs_ghost {
  const char *line[FS_MAXLINES];
  size_t len[FS_MAXLINES];
  int nlines, next;
  int fopen_calls, fclose_calls, open_now;
  int fopen_fails;
  const char *fopen_path;
};
extern struct fs_ghost fs;
