/* Abstract strdup with a ghost log (jobs entry.econf_readDirs*): a fresh
 * object of the size of the source string's object, contents NOT tracked
 * (every callee that would read them is replaced by its contract); the first
 * two calls are logged so that a contract can say WHICH string a copy is a
 * copy of. */
#include <stdlib.h>
#include <stddef.h>
int sd_n;
const char *sd_src0, *sd_src1;
char *sd_res0, *sd_res1;
char *strdup(const char *s)
{
  __CPROVER_precondition(s != NULL, "strdup: argument not NULL");
  size_t n = __CPROVER_OBJECT_SIZE(s) - __CPROVER_POINTER_OFFSET(s);
  char *p = malloc(n);
  __CPROVER_assume(p != NULL);
  p[n - 1] = 0;
  if (sd_n == 0) { sd_src0 = s; sd_res0 = p; }
  else if (sd_n == 1) { sd_src1 = s; sd_res1 = p; }
  if (sd_n < 100) sd_n++;
  return p;
}
