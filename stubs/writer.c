/* Output side of the writer job: stat/fopen("w")/fprintf/fclose models that
 * collect the written text in wr_out, plus strsep. */
#include <sys/stat.h>
#include <errno.h>
#include "asprintf_shim.h"
#include "writer.h"

struct wr_ghost wr;
char wr_out[OUTCAP];
static char wr_handle;
static int wr_errno;
int *__errno_location(void) { return &wr_errno; }

int stat(const char *path, struct stat *sb)
{
  __CPROVER_precondition(path != NULL && sb != NULL, "stat: arguments not NULL");
  if (wr.stat_ret != 0) { wr_errno = ENOENT; return -1; }
  sb->st_mode = wr.stat_isdir ? S_IFDIR | 0755 : S_IFREG | 0644;
  return 0;
}

/* the writer's handle; the reader's fopen is in stdio_real.c when both are linked */
FILE *wr_fopen(const char *path, const char *mode)
{
  __CPROVER_precondition(path != NULL && mode != NULL && mode[0] == 'w', "fopen for writing");
  wr.fopen_calls++; wr.open_now++;
  wr.len = 0;
  return (FILE *)&wr_handle;
}
int wr_is_handle(FILE *f) { return f == (FILE *)&wr_handle; }
int wr_fclose(FILE *f)
{
  __CPROVER_precondition(f == (FILE *)&wr_handle && wr.open_now > 0, "fclose: the writer's open handle");
  wr.fclose_calls++; wr.open_now--;
  return 0;
}

static void put(char c)
{
  if (wr.len + 1 < OUTCAP) wr_out[wr.len++] = c; else wr.overflow = 1;
  wr_out[wr.len] = 0;
}

int verif_fprintf(FILE *stream, const char *fmt, struct varg a, struct varg b, struct varg c)
{
  __CPROVER_precondition(stream == (FILE *)&wr_handle && wr.open_now > 0, "fprintf: the writer's open handle");
  struct varg args[3] = { a, b, c };
  int ai = 0, n = 0;
  for (size_t f = 0; fmt[f]; f++) {
    if (fmt[f] != '%') { put(fmt[f]); n++; continue; }
    f++;
    __CPROVER_precondition(fmt[f] == 's' || fmt[f] == 'c', "fprintf model: %s and %c only");
    __CPROVER_precondition(ai < 3, "fprintf model: at most three arguments");
    if (fmt[f] == 'c') {
      __CPROVER_precondition(args[ai].kind == VK_INT, "fprintf %c: integer argument");
      put((char)args[ai].i); n++;
    } else {
      __CPROVER_precondition(args[ai].kind == VK_STR && args[ai].s != NULL, "fprintf %s: non-NULL string argument");
      for (size_t i = 0; args[ai].s[i]; i++) { put(args[ai].s[i]); n++; }
    }
    ai++;
  }
  return n;
}

char *strsep(char **stringp, const char *delim)
{
  char *s = *stringp;
  if (s == NULL) return NULL;
  for (size_t i = 0; ; i++) {
    if (s[i] == 0) { *stringp = NULL; return s; }
    for (size_t d = 0; delim[d]; d++)
      if (s[i] == delim[d]) { s[i] = 0; *stringp = s + i + 1; return s; }
  }
}
