/* Executable contracts of the callees of traverse_conf_dirs/check_conf_dir
 * (job "dropins"): read_file_with_callback, object constructor/destructor,
 * combine_strings' snprintf, and a scandir that may return any directory
 * content - but only in alphasort order, and only if asked for it. */
#include <dirent.h>
#include <stdlib.h>
#include <string.h>
#include "asprintf_shim.h"
#include "h2.h"
#include "getfilecontents.h"

struct h2_ghost h2;
int h2_ndrop[H2_POST];
char h2_names[H2_POST * H2_NAMES * H2_CAP];
int h2_state[H2_POST][H2_NAMES];
int h2_read_post[H2_MAXFILES], h2_read_idx[H2_MAXFILES];

econf_err econf_newKeyFile_with_options(econf_file **result, const char *options)
{
  __CPROVER_precondition(result != NULL && options != NULL && options[0] == 0, "plain object requested");
  econf_file *ef = calloc(1, sizeof(econf_file));
  __CPROVER_assume(ef != NULL);
  *result = ef;
  h2.live++;
  return ECONF_SUCCESS;
}

econf_file *econf_freeFile(econf_file *kf)
{
  if (!kf) return NULL;
  __CPROVER_assert(h2.live > 0, "C20: econf_freeFile on an object that is not live");
  free(kf->path);
  free(kf);
  h2.live--;
  return NULL;
}

static bool str_eq(const char *a, const char *b)
{
  size_t i = 0;
  for (; a[i] && b[i]; i++) if (a[i] != b[i]) return false;
  return a[i] == b[i];
}
static const char *after(const char *s, const char *prefix)
{
  size_t i = 0;
  for (; prefix[i]; i++) if (s[i] != prefix[i]) return NULL;
  return s + i;
}
static econf_err code_of(int state)
{
  return state == F_OK ? ECONF_SUCCESS : state == F_ABSENT ? ECONF_NOFILE :
         state == F_PARSE_ERROR ? ECONF_MISSING_BRACKET :
         state == F_REJECTED ? ECONF_PARSING_CALLBACK_FAILED : ECONF_WRONG_OWNER;
}

econf_err read_file_with_callback(econf_file **key_file, const char *file_name,
                                  const char *delim, const char *comment,
                                  bool (*callback)(const char *filename, const void *data),
                                  const void *callback_data)
{
  __CPROVER_assert(key_file != NULL && *key_file != NULL && file_name != NULL, "reader passes an object and a path");
  __CPROVER_assert(callback == h2.cb && callback_data == h2.cb_data,
                   "C06: the caller's callback and data pointer are forwarded unchanged");
  __CPROVER_assert(delim == h2.delim && comment == h2.comment, "C12: delimiters and comment set forwarded");
  __CPROVER_assert((*key_file)->join_same_entries == h2.join && (*key_file)->python_style == h2.python,
                   "C15: parsing options forwarded to every drop-in");
  /* <base><postfix>/<name> */
  int post = -1, idx = -1;
  const char *r = after(file_name, h2.base);
  for (int p = 0; p < H2_POST; p++)
    if (r && p < h2.npost && post < 0) {
      const char *q = after(r, h2.post[p]);
      if (q && q[0] == '/')
        for (int d = 0; d < H2_NAMES; d++)
          if (d < h2_ndrop[p] && idx < 0 && str_eq(q + 1, H2_NAME(p, d))) { post = p; idx = d; }
    }
  __CPROVER_assert(idx >= 0, "C01: only files listed in a drop-in directory are consulted, under <dir>/<name>");
  if (h2.nreads < H2_MAXFILES) { h2_read_post[h2.nreads] = post; h2_read_idx[h2.nreads] = idx; }
  h2.nreads++;
  if (idx < 0) return ECONF_ERROR;
  int state = h2_state[post][idx];
  if (state == F_OK) { (*key_file)->path = strdup(file_name); return ECONF_SUCCESS; }
  if (state == F_PARSE_ERROR) { econf_freeFile(*key_file); *key_file = NULL; }
  return code_of(state);
}

int scandir(const char *path, struct dirent ***namelist,
            int (*filter)(const struct dirent *),
            int (*compar)(const struct dirent **, const struct dirent **))
{
  __CPROVER_assert(filter == NULL && compar == alphasort,
                   "C01: the directory is listed unfiltered and in alphasort (byte-wise) order");
  int post = -1;
  const char *r = after(path, h2.base);
  for (int p = 0; p < H2_POST; p++)
    if (r && p < h2.npost && post < 0 && str_eq(r, h2.post[p])) post = p;
  __CPROVER_assert(post >= 0 && post == h2.nscans, "C01: drop-in directories <base><postfix> are scanned in list order");
  h2.nscans++;
  if (post < 0 || h2_ndrop[post] < 0) return -1;
  int n = h2_ndrop[post];
  struct dirent **list = malloc((n ? n : 1) * sizeof(struct dirent *));
  __CPROVER_assume(list != NULL);
  for (int d = 0; d < H2_NAMES; d++)
    if (d < n) {
      list[d] = malloc(sizeof(struct dirent));
      __CPROVER_assume(list[d] != NULL);
      for (int c = 0; c < H2_CAP; c++) list[d]->d_name[c] = H2_NAME(post, d)[c];
    }
  *namelist = list;
  return n;
}

/* realloc with exact new size and an element-wise bounded copy (CBMC's model
 * copies with a symbolic-length array operation, which does not scale) */
void *realloc(void *ptr, size_t n)
{
  if (ptr == NULL) { void *p = malloc(n); __CPROVER_assume(p != NULL); return p; }
  __CPROVER_precondition(__CPROVER_POINTER_OFFSET(ptr) == 0, "realloc: pointer to the start of an object");
  size_t old = __CPROVER_OBJECT_SIZE(ptr);
  __CPROVER_precondition(old % sizeof(void *) == 0 && n % sizeof(void *) == 0 &&
                         old <= (H2_MAXFILES + 1) * sizeof(void *) && n <= (H2_MAXFILES + 1) * sizeof(void *),
                         "realloc model: small pointer arrays only");
  void **np = malloc(n);
  __CPROVER_assume(np != NULL);
  for (size_t i = 0; i < H2_MAXFILES + 1; i++)
    if (i * sizeof(void *) < old && i * sizeof(void *) < n) np[i] = ((void **)ptr)[i];
  free(ptr);
  return np;
}

int verif_snprintf(char *buf, size_t size, const char *fmt, struct varg a, struct varg b, struct varg c)
{
  __CPROVER_precondition(str_eq(fmt, "%s%c%s"), "snprintf: only the combine_strings format is modelled here");
  __CPROVER_precondition(a.kind == VK_STR && a.s && b.kind == VK_INT && c.kind == VK_STR && c.s, "snprintf %s%c%s arguments");
  size_t n = 0;
  for (size_t i = 0; a.s[i]; i++) { if (n + 1 < size) buf[n] = a.s[i]; n++; }
  if (n + 1 < size) buf[n] = (char)b.i; n++;
  for (size_t i = 0; c.s[i]; i++) { if (n + 1 < size) buf[n] = c.s[i]; n++; }
  if (size > 0) buf[n < size ? n : size - 1] = 0;
  return (int)n;
}

char *stpcpy(char *dst, const char *src)
{
  size_t i = 0;
  for (; src[i]; i++) dst[i] = src[i];
  dst[i] = 0;
  return dst + i;
}
