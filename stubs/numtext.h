#pragma once
#include <stddef.h>
enum { TAG_NONE = 0, TAG_INT = 1, TAG_FP = 2, TAG_DEC = 3 };
/* all ghost state of the numeric-text axioms in ONE object, so that a frame
 * (assigns clause) can name it as a single target */
struct numtext_ghost {
  int err;              /* errno */
  const char *ptr;      /* the one tagged buffer of this run */
  int kind;             /* TAG_* */
  __int128 ival;        /* TAG_INT: mathematical value */
  double fp;            /* TAG_FP: the printed double */
  int prec;             /* TAG_FP: precision */
  size_t len;           /* bytes the literal occupies (>0) */
};
extern struct numtext_ghost g_nt;
#define g_errno g_nt.err
#define g_tag_ptr g_nt.ptr
#define g_tag_kind g_nt.kind
#define g_tag_int g_nt.ival
#define g_tag_fp g_nt.fp
#define g_tag_prec g_nt.prec
#define g_tag_len g_nt.len
extern float g_round_float;   /* TAG_DEC */
extern double g_round_double; /* TAG_DEC */
extern int g_errno_of_literal;
char *numtext_new(int kind);
#define NUMTEXT_GHOST g_nt
