/* Executable contracts of the callees of merge_econf_files (job "fold"):
 * econf_mergeFiles (jobs merge.*), econf_freeFile, basename. */
#include <stdlib.h>
#include <string.h>
#include <libgen.h>
#include "h3.h"

struct h3_ghost h3;
econf_file *h3_log_acc[H3_MAX], *h3_log_over[H3_MAX], *h3_log_res[H3_MAX];

econf_err econf_mergeFiles(econf_file **merged_file, econf_file *usr_file, econf_file *etc_file)
{
  __CPROVER_assert(merged_file && usr_file && etc_file, "merge gets two objects");
  econf_file *m = calloc(1, sizeof(econf_file));
  __CPROVER_assume(m != NULL);
  h3.live++;
  if (h3.nmerge < H3_MAX) { h3_log_acc[h3.nmerge] = usr_file; h3_log_over[h3.nmerge] = etc_file; h3_log_res[h3.nmerge] = m; }
  h3.nmerge++;
  *merged_file = m;     /* path stays NULL, on_merge_delete 0: as econf_mergeFiles leaves it */
  return ECONF_SUCCESS;
}

econf_file *econf_freeFile(econf_file *kf)
{
  if (!kf) return NULL;
  __CPROVER_assert(h3.live > 0, "C20: econf_freeFile on an object that is not live");
  free(kf->path);
  free(kf);             /* a second free of the same object is flagged by CBMC */
  h3.live--;
  return NULL;
}

/* POSIX basename for paths without trailing slash: the part after the last '/' */
char *__xpg_basename(char *path)
{
  char *b = path;
  for (size_t i = 0; path[i]; i++)
    if (path[i] == '/') b = path + i + 1;
  return b;
}
