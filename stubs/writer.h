#pragma once
#include <stddef.h>
#ifndef OUTCAP
#define OUTCAP 128
#endif
struct wr_ghost { size_t len; int fopen_calls, fclose_calls, open_now; int stat_ret; int stat_isdir; int overflow; };
extern struct wr_ghost wr;
extern char wr_out[OUTCAP];     /* everything written to the file, in order */
