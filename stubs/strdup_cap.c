/* strdup with a CONCRETE allocation size: the copy is made into a buffer of
 * STRDUP_CAP bytes (>= every string of the job, checked) with a bounded
 * loop.  CBMC's own model allocates strlen()+1 bytes, a symbolic size for
 * symbolic text, and a handful of those do not fit in memory.  The slack
 * behind the terminator is the only difference to the real function. */
#include <stdlib.h>
#include <stddef.h>
#ifndef STRDUP_CAP
#define STRDUP_CAP 16
#endif
char *strdup(const char *s)
{
  __CPROVER_precondition(s != NULL, "strdup: argument not NULL");
  char *p = malloc(STRDUP_CAP);
  __CPROVER_assume(p != NULL);
  size_t i = 0;
  for (; i < STRDUP_CAP; i++) { p[i] = s[i]; if (!s[i]) break; }
  __CPROVER_assert(i < STRDUP_CAP, "strdup model: string shorter than STRDUP_CAP");
  return p;
}
