/* byte-level models of string functions CBMC has no body for */
#include <stddef.h>
#include <stdlib.h>
char *stpcpy(char *dst, const char *src)
{
  size_t i = 0;
  for (; src[i]; i++) dst[i] = src[i];
  dst[i] = 0;
  return dst + i;
}
