/* M-packed abstract strdup (DESIGN.md 4): a fresh object of the size of the
 * source string's object, contents NOT tracked (every callee that would read
 * them is replaced by its contract in the jobs that link this file). */
#include <stdlib.h>
#include <stddef.h>
char *strdup(const char *s)
{
  __CPROVER_precondition(s != NULL, "strdup: argument not NULL");
  size_t n = __CPROVER_OBJECT_SIZE(s) - __CPROVER_POINTER_OFFSET(s);
  char *p = malloc(n);
  __CPROVER_assume(p != NULL);
  p[n - 1] = 0;
  return p;
}
