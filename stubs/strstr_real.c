#include <stddef.h>
/* byte-level strstr (CBMC has no body for it) */
char *strstr(const char *h, const char *n)
{
  if (!n[0]) return (char *)h;
  for (size_t i = 0; h[i]; i++) {
    size_t k = 0;
    while (n[k] && h[i + k] == n[k]) k++;
    if (!n[k]) return (char *)(h + i);
  }
  return NULL;
}
