/* dfcc cannot instrument variadic functions (it appends its write-set
 * parameter to the argument list, where va_arg then finds it).  In the CBMC
 * build every call `asprintf(p, fmt, a[, b])` in /repo code is therefore
 * rewritten BY THE PREPROCESSOR into the fixed-arity verif_asprintf(p, fmt,
 * VARG(a), VARG(b)), where VARG records the argument together with its
 * default-argument-promoted C type.  Nothing else of the call changes. */
#pragma once
#include <stdio.h>
#include <stdlib.h>
#include <string.h>
enum { VK_NONE = 0, VK_INT, VK_UINT, VK_LONG, VK_ULONG, VK_DOUBLE, VK_STR };
struct varg { int kind; long long i; double d; const char *s; };
int verif_asprintf(char **strp, const char *fmt, struct varg a, struct varg b);
/* Arrays (string literals, char buffers) do not decay in CBMC's _Generic:
 * they fall into the default branches, which treat them as strings.  No
 * arithmetic is applied to the argument (x + 0 would turn -0.0 into +0.0). */
#define VARG(x) ((struct varg){                                                     \
  _Generic((x), int: VK_INT, unsigned: VK_UINT, long: VK_LONG, unsigned long: VK_ULONG, \
                long long: VK_LONG, unsigned long long: VK_ULONG, char: VK_INT,      \
                float: VK_DOUBLE, double: VK_DOUBLE, default: VK_STR),               \
  _Generic((x), int: (x), unsigned: (x), long: (x), unsigned long: (x), long long: (x), \
                unsigned long long: (x), char: (x), default: 0),                     \
  _Generic((x), float: (x), double: (x), default: 0.0),                              \
  _Generic((x), int: (const char *)0, unsigned: (const char *)0, long: (const char *)0, \
                unsigned long: (const char *)0, long long: (const char *)0,          \
                unsigned long long: (const char *)0, char: (const char *)0,          \
                float: (const char *)0, double: (const char *)0, default: (x)) })
#define VARG_NONE ((struct varg){ VK_NONE, 0, 0.0, (const char *)0 })
#define VERIF_PICK(_1, _2, _3, NAME, ...) NAME
#define verif_asprintf0(strp, fmt) verif_asprintf(strp, fmt, VARG_NONE, VARG_NONE)
#define verif_asprintf1(strp, fmt, a) verif_asprintf(strp, fmt, VARG(a), VARG_NONE)
#define verif_asprintf2(strp, fmt, a, b) verif_asprintf(strp, fmt, VARG(a), VARG(b))
#define asprintf(strp, ...) \
  VERIF_PICK(__VA_ARGS__, verif_asprintf2, verif_asprintf1, verif_asprintf0)(strp, __VA_ARGS__)

/* the same for snprintf(buf, size, fmt, a[, b[, c]]) */
int verif_snprintf(char *buf, size_t size, const char *fmt, struct varg a, struct varg b, struct varg c);
#define VERIF_PICK4(_1, _2, _3, _4, NAME, ...) NAME
#define verif_snprintf0(buf, size, fmt) verif_snprintf(buf, size, fmt, VARG_NONE, VARG_NONE, VARG_NONE)
#define verif_snprintf1(buf, size, fmt, a) verif_snprintf(buf, size, fmt, VARG(a), VARG_NONE, VARG_NONE)
#define verif_snprintf2(buf, size, fmt, a, b) verif_snprintf(buf, size, fmt, VARG(a), VARG(b), VARG_NONE)
#define verif_snprintf3(buf, size, fmt, a, b, c) verif_snprintf(buf, size, fmt, VARG(a), VARG(b), VARG(c))
#define snprintf(buf, size, ...) \
  VERIF_PICK4(__VA_ARGS__, verif_snprintf3, verif_snprintf2, verif_snprintf1, verif_snprintf0)(buf, size, __VA_ARGS__)

/* the same for fprintf(stream, fmt[, a[, b[, c]]]) */
int verif_fprintf(FILE *stream, const char *fmt, struct varg a, struct varg b, struct varg c);
#define verif_fprintf0(f, fmt) verif_fprintf(f, fmt, VARG_NONE, VARG_NONE, VARG_NONE)
#define verif_fprintf1(f, fmt, a) verif_fprintf(f, fmt, VARG(a), VARG_NONE, VARG_NONE)
#define verif_fprintf2(f, fmt, a, b) verif_fprintf(f, fmt, VARG(a), VARG(b), VARG_NONE)
#define verif_fprintf3(f, fmt, a, b, c) verif_fprintf(f, fmt, VARG(a), VARG(b), VARG(c))
#define fprintf(f, ...) \
  VERIF_PICK4(__VA_ARGS__, verif_fprintf3, verif_fprintf2, verif_fprintf1, verif_fprintf0)(f, __VA_ARGS__)

/* printf(fmt[, a[, b[, c]]]) as used by util/econftool.c - only where asked for
 * (lib/keyfile.c has a debug printf with more arguments) */
#ifdef VERIF_SHIM_PRINTF
int verif_printf(const char *fmt, struct varg a, struct varg b, struct varg c);
#define verif_printf0(fmt) verif_printf(fmt, VARG_NONE, VARG_NONE, VARG_NONE)
#define verif_printf1(fmt, a) verif_printf(fmt, VARG(a), VARG_NONE, VARG_NONE)
#define verif_printf2(fmt, a, b) verif_printf(fmt, VARG(a), VARG(b), VARG_NONE)
#define verif_printf3(fmt, a, b, c) verif_printf(fmt, VARG(a), VARG(b), VARG(c))
#define printf(...) \
  VERIF_PICK4(__VA_ARGS__, verif_printf3, verif_printf2, verif_printf1, verif_printf0)(__VA_ARGS__)
#endif
