/* M-real: byte-level models of the libc functions CBMC has no body for, used
 * by the parser (scenario) jobs.  Strings are real NUL-terminated byte
 * arrays; every loop here is unwound with unwinding assertions. */
#include "asprintf_shim.h"
#include "stdio_real.h"
#include <sys/types.h>

struct fs_ghost fs;
#ifdef WITH_WRITER
FILE *wr_fopen(const char *path, const char *mode);
int wr_fclose(FILE *f);
int wr_is_handle(FILE *f);
#endif
static char fs_handle;

FILE *fopen(const char *path, const char *mode)
{
  __CPROVER_precondition(path != NULL && mode != NULL, "fopen: arguments not NULL");
#ifdef WITH_WRITER
  if (mode[0] == 'w') return wr_fopen(path, mode);
#endif
  fs.fopen_calls++;
  fs.fopen_path = path;
  if (fs.fopen_fails)
    return NULL;
  fs.open_now++;
  return (FILE *)&fs_handle;
}

int fclose(FILE *f)
{
#ifdef WITH_WRITER
  if (wr_is_handle(f)) return wr_fclose(f);
#endif
  __CPROVER_precondition(f == (FILE *)&fs_handle && fs.open_now > 0, "fclose: open handle");
  fs.fclose_calls++;
  fs.open_now--;
  return 0;
}

/* getline may reallocate *lineptr to any sufficient size: it always hands
 * out a buffer of exactly len+1 bytes, so every overrun is visible */
ssize_t getline(char **lineptr, size_t *n, FILE *stream)
{
  __CPROVER_precondition(stream == (FILE *)&fs_handle && fs.open_now > 0, "getline: open handle");
  __CPROVER_precondition(lineptr != NULL && n != NULL, "getline: arguments not NULL");
  if (fs.next >= fs.nlines)
    return -1;
  size_t len = fs.len[fs.next];
  const char *src = fs.line[fs.next];
  fs.next++;
  free(*lineptr);
  char *p = malloc(len + 1);
  __CPROVER_assume(p != NULL);
  for (size_t i = 0; i < len; i++)
    p[i] = src[i];
  p[len] = 0;
  *lineptr = p;
  *n = len + 1;
  return (ssize_t)len;
}

static size_t slen(const char *s)
{
  size_t n = 0;
  while (s[n]) n++;
  return n;
}

/* the two string formats lib/getfilecontents.c uses */
int verif_asprintf(char **strp, const char *fmt, struct varg a, struct varg b)
{
  if (!strcmp(fmt, "%s\n%s")) {
    __CPROVER_precondition(a.kind == VK_STR && b.kind == VK_STR, "asprintf %s\\n%s: two strings");
    __CPROVER_precondition(a.s != NULL && b.s != NULL, "asprintf: %s argument not NULL");
    size_t la = slen(a.s), lb = slen(b.s);
    char *p = malloc(la + lb + 2);
    __CPROVER_assume(p != NULL);
    for (size_t i = 0; i < la; i++) p[i] = a.s[i];
    p[la] = '\n';
    for (size_t i = 0; i < lb; i++) p[la + 1 + i] = b.s[i];
    p[la + lb + 1] = 0;
    *strp = p;
    return (int)(la + lb + 1);
  }
  if (!strcmp(fmt, "\n%s")) {
    __CPROVER_precondition(a.kind == VK_STR && a.s != NULL, "asprintf \\n%s: one string");
    size_t la = slen(a.s);
    char *p = malloc(la + 2);
    __CPROVER_assume(p != NULL);
    p[0] = '\n';
    for (size_t i = 0; i < la; i++) p[1 + i] = a.s[i];
    p[la + 1] = 0;
    *strp = p;
    return (int)(la + 1);
  }
  __CPROVER_assert(0, "asprintf: format not modelled");
  return -1;
}

/* snprintf(buf, size, "%s", s): bounded copy */
int verif_snprintf(char *buf, size_t size, const char *fmt, struct varg a, struct varg b, struct varg c)
{
  if (!strcmp(fmt, "%s")) {
    __CPROVER_precondition(a.kind == VK_STR && a.s != NULL, "snprintf %s: one string");
    size_t la = slen(a.s);
    if (size > 0) {
      size_t k = la < size - 1 ? la : size - 1;
      for (size_t i = 0; i < k; i++) buf[i] = a.s[i];
      buf[k] = 0;
    }
    return (int)la;
  }
  __CPROVER_assert(0, "snprintf: format not modelled");
  return -1;
}

char *strndup(const char *s, size_t n)
{
  __CPROVER_precondition(s != NULL, "strndup: argument not NULL");
  size_t l = 0;
  while (l < n && s[l]) l++;
  char *p = malloc(l + 1);
  __CPROVER_assume(p != NULL);
  for (size_t i = 0; i < l; i++) p[i] = s[i];
  p[l] = 0;
  return p;
}

/* further byte-level string functions CBMC has no body for (a change to the
 * parser may well start using them) */
char *strpbrk(const char *s, const char *accept)
{
  for (size_t i = 0; s[i]; i++)
    for (size_t k = 0; accept[k]; k++)
      if (s[i] == accept[k]) return (char *)(s + i);
  return NULL;
}
size_t strspn(const char *s, const char *accept)
{
  size_t i = 0;
  for (; s[i]; i++) {
    int hit = 0;
    for (size_t k = 0; accept[k]; k++) if (s[i] == accept[k]) hit = 1;
    if (!hit) break;
  }
  return i;
}
size_t strcspn(const char *s, const char *reject)
{
  size_t i = 0;
  for (; s[i]; i++)
    for (size_t k = 0; reject[k]; k++) if (s[i] == reject[k]) return i;
  return i;
}
