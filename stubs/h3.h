#pragma once
#include "libeconf.h"
#include "keyfile.h"
#define H3_MAX 5
struct h3_ghost { int nmerge, live; };
extern struct h3_ghost h3;
extern econf_file *h3_log_acc[H3_MAX], *h3_log_over[H3_MAX], *h3_log_res[H3_MAX];
