/* realloc with the exact new size and a bounded word-wise copy.  CBMC's
 * built-in model copies with a symbolic-length array operation, which does
 * not scale.  All arrays reallocated in lib/ are arrays of pointers or of
 * struct file_entry (multiples of 8 bytes); REALLOC_WORDS bounds their size. */
#include <stdlib.h>
#include <stdint.h>
#ifndef REALLOC_WORDS
#define REALLOC_WORDS 96
#endif
void *realloc(void *ptr, size_t n)
{
  if (ptr == NULL) { void *p = malloc(n); __CPROVER_assume(p != NULL); return p; }
  __CPROVER_precondition(__CPROVER_POINTER_OFFSET(ptr) == 0, "realloc: pointer to the start of an object");
  size_t old = __CPROVER_OBJECT_SIZE(ptr);
  __CPROVER_precondition(old % 8 == 0 && n % 8 == 0 && old <= REALLOC_WORDS * 8 && n <= REALLOC_WORDS * 8,
                         "realloc model: arrays of 8-byte words up to REALLOC_WORDS");
  uint64_t *np = malloc(n);
  __CPROVER_assume(np != NULL);
  for (size_t i = 0; i < REALLOC_WORDS; i++)
    if (i * 8 < old && i * 8 < n) np[i] = ((uint64_t *)ptr)[i];
  free(ptr);
  return np;
}
