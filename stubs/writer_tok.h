#pragma once
#include <stddef.h>
/* what econf_writeFile emits, as a sequence of tokens: the format string
 * decides the token kind, the arguments are logged as they are (pointers and
 * characters) - the text of a token is fixed by its format */
enum { T_OTHER = 0, T_NL, T_HDR, T_CMT, T_KEY, T_QVAL, T_VAL, T_ACMT };
#ifndef TOK_MAX
#define TOK_MAX 40
#endif
struct wt_ghost { int n, fopen_calls, fclose_calls, open_now, stat_ret, stat_isdir, fopen_fails; const char *path; };
extern struct wt_ghost wt;
extern int wt_kind[TOK_MAX];
extern const char *wt_s[TOK_MAX];   /* the %s argument */
extern char wt_c[TOK_MAX];          /* the %c argument */
extern size_t wt_len[TOK_MAX];      /* strlen of the %s argument when it was printed */
extern int wt_hsec[TOK_MAX];        /* T_HDR: 1 for "[A]", 2 for "[B]", -1 for anything else */
