/* M-tag: axioms about libc's printf / strto* families (DESIGN.md 4.4).
 *
 * CBMC cannot reason about "%g" or strtod themselves.  A numeric text is
 * therefore an opaque buffer that carries a ghost TAG saying what it spells:
 *   TAG_INT    an integer literal (optional sign, decimal/octal/hex digits,
 *              nothing after it) whose mathematical value is g_tag_int
 *   TAG_FP     the text printf("%.*g", prec, d) produces for the double d
 *   TAG_DEC    an arbitrary decimal floating literal L; strtof/strtod return
 *              the ghost constants g_round_float / g_round_double (the
 *              correctly rounded values of L; no relation between the two is
 *              assumed)
 * asprintf tags what it prints, strto* interpret the tag as ISO C says.
 * These are ASSUMPTIONS about glibc (trusted base), not proved facts.
 */
#include <stddef.h>
#include <stdint.h>
#include <stdlib.h>
#include <string.h>
#include <errno.h>
#include <limits.h>
#include "asprintf_shim.h"
#include "numtext.h"

struct numtext_ghost g_nt;
int *__errno_location(void) { return &g_nt.err; }

float g_round_float;        /* TAG_DEC */
double g_round_double;      /* TAG_DEC */
int g_errno_of_literal;     /* TAG_DEC: 0, or ERANGE when L over/underflows */

size_t nondet_size_t(void);
long nondet_long(void);
unsigned long nondet_ulong(void);
float nondet_float(void);
double nondet_double(void);

char *numtext_new(int kind)
{
  size_t len = nondet_size_t();
  __CPROVER_assume(len >= 1 && len <= 64);
  char *p = malloc(len + 1);
  __CPROVER_assume(p != NULL);
  p[len] = 0;
  g_tag_ptr = p;
  g_tag_kind = kind;
  g_tag_len = len;
  return p;
}

/* only the formats the typed setters use are interpreted.  The C type read
 * from the argument list is the one the FORMAT names, as in real printf: an
 * integer conversion reads the low bits of whatever integer was passed, a
 * conversion of the wrong class (integer vs floating) reads garbage. */
long nondet_long(void);
int nondet_int(void);
static int is_int_kind(int k) { return k == VK_INT || k == VK_UINT || k == VK_LONG || k == VK_ULONG; }

int verif_asprintf(char **strp, const char *fmt, struct varg a, struct varg b)
{
  if (!strcmp(fmt, "%d")) {
    *strp = numtext_new(TAG_INT);
    g_tag_int = is_int_kind(a.kind) ? (int)a.i : nondet_int();
  } else if (!strcmp(fmt, "%u")) {
    *strp = numtext_new(TAG_INT);
    g_tag_int = is_int_kind(a.kind) ? (unsigned)a.i : (unsigned)nondet_int();
  } else if (!strcmp(fmt, "%ld") || !strcmp(fmt, "%lld")) {
    *strp = numtext_new(TAG_INT);
    /* a 32-bit argument leaves the upper register half undefined */
    g_tag_int = (a.kind == VK_LONG || a.kind == VK_ULONG) ? (long)a.i : nondet_long();
  } else if (!strcmp(fmt, "%lu") || !strcmp(fmt, "%llu")) {
    *strp = numtext_new(TAG_INT);
    g_tag_int = (a.kind == VK_LONG || a.kind == VK_ULONG) ? (unsigned long)a.i : (unsigned long)nondet_long();
  } else if (!strcmp(fmt, "%.*g")) {
    *strp = numtext_new(TAG_FP);
    g_tag_prec = is_int_kind(a.kind) ? (int)a.i : nondet_int();
    g_tag_fp = b.kind == VK_DOUBLE ? b.d : nondet_double();
  } else {
    /* a format this model does not know: opaque text */
    *strp = numtext_new(TAG_NONE);
  }
  return (int)g_tag_len;
}

static int tagged_int(const char *nptr)
{
  __CPROVER_precondition(nptr != NULL, "strto*: text pointer is not NULL");
  return nptr == g_tag_ptr && g_tag_kind == TAG_INT;
}

#define STRTO_SIGNED(NAME, T, TMIN, TMAX)                               \
  T NAME(const char *nptr, char **endptr, int base)                      \
  {                                                                      \
    if (!tagged_int(nptr) || base != 0) {                                \
      if (endptr) *endptr = (char *)nptr + (nondet_size_t() % 2);        \
      g_errno = nondet_size_t() % 2 ? ERANGE : g_errno;                  \
      return (T)nondet_long();                                           \
    }                                                                    \
    if (endptr) *endptr = (char *)nptr + g_tag_len;                      \
    if (g_tag_int < (__int128)(TMIN)) { g_errno = ERANGE; return TMIN; } \
    if (g_tag_int > (__int128)(TMAX)) { g_errno = ERANGE; return TMAX; } \
    return (T)g_tag_int;                                                 \
  }

#define STRTO_UNSIGNED(NAME, T, TMAX)                                    \
  T NAME(const char *nptr, char **endptr, int base)                      \
  {                                                                      \
    if (!tagged_int(nptr) || base != 0) {                                \
      if (endptr) *endptr = (char *)nptr + (nondet_size_t() % 2);        \
      g_errno = nondet_size_t() % 2 ? ERANGE : g_errno;                  \
      return (T)nondet_ulong();                                          \
    }                                                                    \
    if (endptr) *endptr = (char *)nptr + g_tag_len;                      \
    __int128 mag = g_tag_int < 0 ? -g_tag_int : g_tag_int;               \
    if (mag > (__int128)(TMAX)) { g_errno = ERANGE; return TMAX; }       \
    /* ISO C 7.22.1.4p5: a minus sign negates in the return type */      \
    return g_tag_int < 0 ? (T)(0 - (T)mag) : (T)mag;                     \
  }

STRTO_SIGNED(strtol, long, LONG_MIN, LONG_MAX)
STRTO_SIGNED(strtoll, long long, LLONG_MIN, LLONG_MAX)
STRTO_UNSIGNED(strtoul, unsigned long, ULONG_MAX)
STRTO_UNSIGNED(strtoull, unsigned long long, ULLONG_MAX)

float strtof(const char *nptr, char **endptr)
{
  __CPROVER_precondition(nptr != NULL, "strtof: text pointer is not NULL");
  if (nptr == g_tag_ptr && g_tag_kind == TAG_DEC) {
    if (endptr) *endptr = (char *)nptr + g_tag_len;
    if (g_errno_of_literal) g_errno = ERANGE;
    return g_round_float;
  }
  if (nptr == g_tag_ptr && g_tag_kind == TAG_FP) {
    if (endptr) *endptr = (char *)nptr + g_tag_len;
    /* glibc reports ERANGE for subnormal (inexact) results although the value is fine */
    if (g_tag_fp == g_tag_fp && g_tag_fp != 0.0 && g_tag_fp > -1.17549435e-38 && g_tag_fp < 1.17549435e-38 && (nondet_size_t() % 2))
      g_errno = ERANGE;
    /* FLT_DECIMAL_DIG significant digits identify a float (IEEE 754) */
    if (g_tag_prec >= 9 && (g_tag_fp != g_tag_fp || (double)(float)g_tag_fp == g_tag_fp))
      return (float)g_tag_fp;
    return nondet_float();
  }
  if (endptr) *endptr = (char *)nptr + (nondet_size_t() % 2);
  return nondet_float();
}

double strtod(const char *nptr, char **endptr)
{
  __CPROVER_precondition(nptr != NULL, "strtod: text pointer is not NULL");
  if (nptr == g_tag_ptr && g_tag_kind == TAG_DEC) {
    if (endptr) *endptr = (char *)nptr + g_tag_len;
    if (g_errno_of_literal) g_errno = ERANGE;
    return g_round_double;
  }
  if (nptr == g_tag_ptr && g_tag_kind == TAG_FP) {
    if (endptr) *endptr = (char *)nptr + g_tag_len;
    /* glibc reports ERANGE for subnormal (inexact) results although the value is fine */
    if (g_tag_fp == g_tag_fp && g_tag_fp != 0.0 && g_tag_fp > -2.2250738585072014e-308 && g_tag_fp < 2.2250738585072014e-308 && (nondet_size_t() % 2))
      g_errno = ERANGE;
    /* DBL_DECIMAL_DIG significant digits identify a double */
    if (g_tag_prec >= 17)
      return g_tag_fp;
    return nondet_double();
  }
  if (endptr) *endptr = (char *)nptr + (nondet_size_t() % 2);
  return nondet_double();
}
