/* File-system and callback stubs for the read_file_with_callback job: lstat
 * may return any result POSIX allows (values chosen by the harness), the
 * callback is an arbitrary function that logs its arguments. */
#include <sys/stat.h>
#include <libgen.h>
#include <stdlib.h>
#include "rfwc.h"

struct rfwc_ghost g;
int nondet_int(void);
mode_t nondet_mode(void);

int lstat(const char *path, struct stat *sb)
{
  __CPROVER_precondition(path != NULL && sb != NULL, "lstat: arguments not NULL");
  g.lstat_calls++;
  if (g.lstat_calls == 1) {
    g.lstat_name = path;
    if (g.lstat_ret != 0) return -1;
    sb->st_mode = g.st_mode; sb->st_uid = g.st_uid; sb->st_gid = g.st_gid;
    return 0;
  }
  if (g.dir_lstat_ret != 0) return -1;
  sb->st_mode = g.dir_st_mode;
  return 0;
}

bool cb_stub(const char *filename, const void *data)
{
  g.cb_calls++;
  g.cb_name = filename;
  g.cb_arg = data;
  g.cb_before_read = (g.rf_calls == 0);
  return g.cb_ret;
}

/* M-packed strdup: a string occupies its object to the end */
char *strdup(const char *s)
{
  __CPROVER_precondition(s != NULL, "strdup: argument not NULL");
  size_t n = __CPROVER_OBJECT_SIZE(s) - __CPROVER_POINTER_OFFSET(s);
  char *p = malloc(n);
  __CPROVER_assume(p != NULL);
  p[n - 1] = 0;
  return p;
}

char *dirname(char *path)
{
  /* glibc accepts NULL and returns "." */
  static char dot[2] = ".";
  return nondet_int() ? path : dot;
}
