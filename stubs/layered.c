#include <dirent.h>
#include <stdlib.h>
#include <string.h>
#include "asprintf_shim.h"
#include "layered.h"
#include "getfilecontents.h"

struct lfs_ghost lfs;
int lfs_main_state[L_MAX];
int lfs_ndrop[L_MAX][P_MAX];
char lfs_dname[L_MAX][P_MAX][D_MAX][NAME_CAP];
int lfs_dstate[L_MAX][P_MAX][D_MAX];
int lfs_reads_layer[MAX_READS], lfs_reads_post[MAX_READS], lfs_reads_idx[MAX_READS];

econf_err lfs_code(int state)
{
  return state == F_OK ? ECONF_SUCCESS : state == F_ABSENT ? ECONF_NOFILE :
         state == F_PARSE_ERROR ? ECONF_MISSING_BRACKET :
         state == F_REJECTED ? ECONF_PARSING_CALLBACK_FAILED : ECONF_WRONG_OWNER;
}

/* --- objects: contract of econf_newKeyFile_with_options(&p, "") / econf_freeFile --- */
econf_err econf_newKeyFile_with_options(econf_file **result, const char *options)
{
  __CPROVER_precondition(result != NULL, "newKeyFile_with_options: result not NULL");
  __CPROVER_precondition(options != NULL && options[0] == 0, "layered readers create plain objects");
  econf_file *ef = calloc(1, sizeof(econf_file));
  __CPROVER_assume(ef != NULL);
  *result = ef;
  lfs.live++;
  lfs.created++;
  return ECONF_SUCCESS;
}

econf_file *econf_freeFile(econf_file *kf)
{
  if (!kf) return NULL;
  __CPROVER_assert(lfs.live > 0, "C20: econf_freeFile on an object that is not live");
  free(kf->path);
  free(kf);            /* CBMC flags a second free of the same object */
  lfs.live--;
  lfs.freed++;
  return NULL;
}

char **econf_freeArray(char **array)
{
  if (!array) return NULL;
  for (size_t i = 0; array[i]; i++) free(array[i]);
  free(array);
  return NULL;
}

static bool str_eq(const char *a, const char *b)
{
  size_t i = 0;
  for (; a[i] && b[i]; i++) if (a[i] != b[i]) return false;
  return a[i] == b[i];
}
/* does s start with prefix?  returns the rest or NULL */
static const char *after(const char *s, const char *prefix)
{
  size_t i = 0;
  for (; prefix[i]; i++) if (s[i] != prefix[i]) return NULL;
  return s + i;
}

/* --- the choke point, as its contract (contracts/rfwc.h) says --- */
econf_err read_file_with_callback(econf_file **key_file, const char *file_name,
                                  const char *delim, const char *comment,
                                  bool (*callback)(const char *filename, const void *data),
                                  const void *callback_data)
{
  __CPROVER_assert(key_file != NULL && *key_file != NULL && file_name != NULL, "reader passes an object and a path");
  __CPROVER_assert(callback == lfs.cb && callback_data == lfs.cb_data,
                   "C06: the caller's callback and data pointer are forwarded unchanged");
  __CPROVER_assert(delim == lfs.delim && comment == lfs.comment, "C12: delimiters and comment set forwarded");
  __CPROVER_assert((*key_file)->join_same_entries == lfs.join && (*key_file)->python_style == lfs.python,
                   "C15: parsing options forwarded to every file");
  /* which file is it? */
  int layer = -1, post = -1, idx = -1, state = F_ABSENT;
  for (int l = 0; l < lfs.nlayers; l++) {
    const char *r = after(file_name, lfs.dir[l]);
    if (!r || r[0] != '/') continue;
    r = after(r + 1, lfs.name);
    if (!r) continue;
    if (str_eq(r, lfs.suffix) && layer < 0) { layer = l; idx = -1; state = lfs_main_state[l]; }
    for (int p = 0; p < lfs.npost; p++) {
      const char *q = after(r, lfs.post[p]);
      if (!q || q[0] != '/') continue;
      for (int d = 0; d < D_MAX; d++)
        if (d < lfs_ndrop[l][p] && str_eq(q + 1, lfs_dname[l][p][d]) && layer < 0) {
          layer = l; post = p; idx = d; state = lfs_dstate[l][p][d];
        }
    }
  }
  __CPROVER_assert(layer >= 0, "C01: only the main file of a layer or a listed drop-in is consulted");
  __CPROVER_assert(lfs.nreads < MAX_READS, "C01: no file is consulted twice");
  if (lfs.nreads < MAX_READS) {
    lfs_reads_layer[lfs.nreads] = layer;
    lfs_reads_post[lfs.nreads] = post;
    lfs_reads_idx[lfs.nreads] = idx;
    lfs.nreads++;
  }
  if (state == F_OK) {
    (*key_file)->path = strdup(file_name);
    return ECONF_SUCCESS;
  }
  if (state == F_PARSE_ERROR) {
    econf_freeFile(*key_file);
    *key_file = NULL;
  }
  return lfs_code(state);
}

/* --- scandir: any content; the caller must ask for alphasort order --- */
int scandir(const char *path, struct dirent ***namelist,
            int (*filter)(const struct dirent *),
            int (*compar)(const struct dirent **, const struct dirent **))
{
  __CPROVER_assert(filter == NULL && compar == alphasort,
                   "C01: directory is listed unfiltered in alphasort (byte-wise) order");
  int layer = -1, post = -1;
  for (int l = 0; l < lfs.nlayers; l++) {
    const char *r = after(path, lfs.dir[l]);
    if (!r || r[0] != '/') continue;
    r = after(r + 1, lfs.name);
    if (!r) continue;
    for (int p = 0; p < lfs.npost; p++)
      if (str_eq(r, lfs.post[p]) && layer < 0) { layer = l; post = p; }
  }
  __CPROVER_assert(layer >= 0, "C01: only <layer>/<name><postfix> directories are scanned");
  if (layer < 0 || lfs_ndrop[layer][post] < 0) return -1;
  int n = lfs_ndrop[layer][post];
  struct dirent **list = malloc((n ? n : 1) * sizeof(struct dirent *));
  __CPROVER_assume(list != NULL);
  for (int d = 0; d < D_MAX; d++)
    if (d < n) {
      list[d] = malloc(sizeof(struct dirent));
      __CPROVER_assume(list[d] != NULL);
      for (int c = 0; c < NAME_CAP; c++) list[d]->d_name[c] = lfs_dname[layer][post][d][c];
    }
  *namelist = list;
  return n;
}

/* snprintf(buf, size, "%s%c%s", a, c, b) of combine_strings: bounded copy */
int verif_snprintf(char *buf, size_t size, const char *fmt, struct varg a, struct varg b, struct varg c)
{
  __CPROVER_precondition(str_eq(fmt, "%s%c%s"), "snprintf: only the combine_strings format is modelled here");
  __CPROVER_precondition(a.kind == VK_STR && a.s && b.kind == VK_INT && c.kind == VK_STR && c.s, "snprintf %s%c%s arguments");
  size_t n = 0;
  for (size_t i = 0; a.s[i]; i++) { if (n + 1 < size) buf[n] = a.s[i]; n++; }
  if (n + 1 < size) buf[n] = (char)b.i; n++;
  for (size_t i = 0; c.s[i]; i++) { if (n + 1 < size) buf[n] = c.s[i]; n++; }
  if (size > 0) buf[n < size ? n : size - 1] = 0;
  return (int)n;
}

/* realloc with exact (symbolic) new size and an element-wise bounded copy:
 * CBMC's built-in model copies with a symbolic-length array operation, which
 * does not scale.  Every array reallocated by the layered readers is an array
 * of pointers with at most MAX_READS+1 elements. */
void *realloc(void *ptr, size_t n)
{
  if (ptr == NULL) { void *p = malloc(n); __CPROVER_assume(p != NULL); return p; }
  __CPROVER_precondition(__CPROVER_POINTER_OFFSET(ptr) == 0, "realloc: pointer to the start of an object");
  size_t old = __CPROVER_OBJECT_SIZE(ptr);
  __CPROVER_precondition(old % sizeof(void *) == 0 && n % sizeof(void *) == 0 &&
                         old <= (MAX_READS + 2) * sizeof(void *) && n <= (MAX_READS + 2) * sizeof(void *),
                         "realloc model: small pointer arrays only");
  void **np = malloc(n);
  __CPROVER_assume(np != NULL);
  for (size_t i = 0; i < MAX_READS + 2; i++)
    if (i * sizeof(void *) < old && i * sizeof(void *) < n) np[i] = ((void **)ptr)[i];
  free(ptr);
  return np;
}

char *stpcpy(char *dst, const char *src)
{
  size_t i = 0;
  for (; src[i]; i++) dst[i] = src[i];
  dst[i] = 0;
  return dst + i;
}
