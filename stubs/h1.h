#pragma once
#include <stdbool.h>
#include <stddef.h>
#include "libeconf.h"
#include "keyfile.h"
#define H1_LAYERS 3
#define H1_POST 2
#define H1_MAXFILES 8
enum { F_ABSENT = 0, F_OK = 1, F_PARSE_ERROR = 2, F_REJECTED = 3, F_WRONG_OWNER = 4 };
struct h1_ghost {
  int nlayers, npost;
  const char *name, *main_tail, *suffix_norm;
  const char *post[H1_POST];
  bool (*cb)(const char *, const void *);
  const void *cb_data;
  const char *delim, *comment;
  bool join, python;
  int nmain, ntrav, live;
};
extern struct h1_ghost h1;
extern int h1_main_state[H1_LAYERS], h1_main_reads[H1_LAYERS + 1], h1_trav_layer[H1_LAYERS + 1];
extern int h1_trav_add[H1_LAYERS], h1_trav_err[H1_LAYERS];
