/* Generic byte-level model of snprintf for formats made of literal text, %s
 * and %c (all lib/ uses), over the fixed-arity shim (asprintf_shim.h). */
#include "asprintf_shim.h"
int verif_snprintf(char *buf, size_t size, const char *fmt, struct varg a, struct varg b, struct varg c)
{
  struct varg args[3] = { a, b, c };
  int ai = 0;
  size_t n = 0;
  for (size_t f = 0; fmt[f]; f++) {
    if (fmt[f] != '%') { if (n + 1 < size) buf[n] = fmt[f]; n++; continue; }
    f++;
    if (fmt[f] == 'i' || fmt[f] == 'd') {
      /* the digits are not modelled: one placeholder byte */
      /* (an enum argument is not classified by the shim's _Generic: any kind is accepted here) */
      __CPROVER_precondition(ai < 3, "snprintf model: at most three arguments");
      if (n + 1 < size) buf[n] = '#';
      n++; ai++;
      continue;
    }
    __CPROVER_precondition(fmt[f] == 's' || fmt[f] == 'c', "snprintf model: %s, %c and %i only");
    __CPROVER_precondition(ai < 3, "snprintf model: at most three arguments");
    if (fmt[f] == 'c') {
      __CPROVER_precondition(args[ai].kind == VK_INT, "snprintf %c: integer argument");
      if (n + 1 < size) buf[n] = (char)args[ai].i;
      n++;
    } else {
      __CPROVER_precondition(args[ai].kind == VK_STR && args[ai].s != NULL, "snprintf %s: non-NULL string argument");
      for (size_t i = 0; args[ai].s[i]; i++) { if (n + 1 < size) buf[n] = args[ai].s[i]; n++; }
    }
    ai++;
  }
  if (size > 0) buf[n < size ? n : size - 1] = 0;
  return (int)n;
}
