#pragma once
#include <stdbool.h>
#include <stddef.h>
#include "libeconf.h"
#include "keyfile.h"
#ifndef H2_POST
#define H2_POST 2   /* drop-in directories */
#endif
#ifndef H2_NAMES
#define H2_NAMES 2  /* names scandir returns per directory */
#endif
#define H2_CAP 5    /* name buffer: up to 4 bytes + NUL */
#define H2_MAXFILES (H2_POST * H2_NAMES + 3)
enum { F_ABSENT = 0, F_OK = 1, F_PARSE_ERROR = 2, F_REJECTED = 3, F_WRONG_OWNER = 4 };
struct h2_ghost {
  int npost;
  const char *base;              /* <layer dir>/<name> */
  const char *post[H2_POST];
  bool (*cb)(const char *, const void *);
  const void *cb_data;
  const char *delim, *comment;
  bool join, python;
  int nreads, nscans, live;
};
extern struct h2_ghost h2;
extern int h2_ndrop[H2_POST];                       /* -1: directory missing */
extern char h2_names[H2_POST * H2_NAMES * H2_CAP];   /* flat: name (p,d) starts at H2_NAME(p,d) */
#define H2_NAME(p, d) (&h2_names[((p) * H2_NAMES + (d)) * H2_CAP])
extern int h2_state[H2_POST][H2_NAMES];
extern int h2_read_post[H2_MAXFILES], h2_read_idx[H2_MAXFILES];   /* consult log */
