/* Ghost file system and object accounting for the layered-read jobs
 * (C01 C06 C12 C13 C20): the executable form of the contracts of
 * read_file_with_callback, econf_newKeyFile_with_options and econf_freeFile,
 * plus a scandir model that may return any directory content. */
#pragma once
#include <stdbool.h>
#include <stddef.h>
#include "libeconf.h"
#include "keyfile.h"

#ifndef L_MAX
#define L_MAX 3   /* layers */
#endif
#ifndef P_MAX
#define P_MAX 2   /* drop-in directories (postfixes) per layer */
#endif
#ifndef D_MAX
#define D_MAX 2   /* names scandir returns per directory */
#endif
#define NAME_CAP 5
#define MAX_READS (L_MAX + L_MAX * P_MAX * D_MAX + 2)

/* what happens when a file is offered to read_file_with_callback */
enum { F_ABSENT = 0,      /* lstat fails: ECONF_NOFILE, object untouched */
       F_OK = 1,          /* parsed: ECONF_SUCCESS */
       F_PARSE_ERROR = 2, /* parser fails: object freed, pointer cleared */
       F_REJECTED = 3,    /* callback says no: ECONF_PARSING_CALLBACK_FAILED, object untouched */
       F_WRONG_OWNER = 4  /* restriction refuses: ECONF_WRONG_OWNER, object untouched */ };

struct lfs_ghost {
  int nlayers, npost;
  const char *dir[L_MAX];            /* layer directories */
  const char *post[P_MAX];           /* drop-in directory postfixes as the code composes them */
  const char *name;                  /* config name */
  const char *suffix;                /* normalised suffix ("" or ".xx") */
  /* expected forwarding */
  bool (*cb)(const char *, const void *);
  const void *cb_data;
  const char *delim, *comment;
  bool join, python;
  /* log of consulted files, in order */
  int nreads;
  /* object accounting */
  int live, created, freed;
};
extern struct lfs_ghost lfs;
/* the arrays live outside the struct: symbolic-index updates of an array
 * inside one big struct make CBMC copy the whole struct per update */
extern int lfs_main_state[L_MAX];
extern int lfs_ndrop[L_MAX][P_MAX];           /* -1: directory missing */
extern char lfs_dname[L_MAX][P_MAX][D_MAX][NAME_CAP];
extern int lfs_dstate[L_MAX][P_MAX][D_MAX];
extern int lfs_reads_layer[MAX_READS], lfs_reads_post[MAX_READS], lfs_reads_idx[MAX_READS]; /* idx -1: main file */
econf_err lfs_code(int state);
