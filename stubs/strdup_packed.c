/* M-packed strdup (DESIGN.md 4.1): every string handed to strdup in the jobs
 * that link this file occupies its object exactly to the end (built with
 * malloc(len+1) / strdup), so the copy has the CONCRETE size of the source
 * object instead of a symbolic strlen()+1.  The precondition checks it. */
#include <stdlib.h>
#include <stddef.h>
char *strdup(const char *s)
{
  __CPROVER_precondition(s != NULL, "strdup: argument not NULL");
  size_t n = __CPROVER_OBJECT_SIZE(s) - __CPROVER_POINTER_OFFSET(s);
  __CPROVER_precondition(n >= 1 && s[n - 1] == 0, "M-packed: the string ends where its object ends");
  char *p = malloc(n);
  __CPROVER_assume(p != NULL);
  for (size_t i = 0; i < n; i++) p[i] = s[i];
  return p;
}
