/* Abstract strdup with a four-slot ghost log (job cpyentry): a fresh object of
 * the size of the source string's object, contents NOT tracked; each call is
 * logged as (source, result) so that a contract can say WHICH string a copy
 * is a copy of. */
#include <stdlib.h>
#include <stddef.h>
int sd4_n;
const char *sd4_s0, *sd4_s1, *sd4_s2, *sd4_s3;
char *sd4_r0, *sd4_r1, *sd4_r2, *sd4_r3;
char *strdup(const char *s)
{
  __CPROVER_precondition(s != NULL, "strdup: argument not NULL");
  size_t n = __CPROVER_OBJECT_SIZE(s) - __CPROVER_POINTER_OFFSET(s);
  char *p = malloc(n);
  __CPROVER_assume(p != NULL);
  p[n - 1] = 0;
  if (sd4_n == 0) { sd4_s0 = s; sd4_r0 = p; }
  else if (sd4_n == 1) { sd4_s1 = s; sd4_r1 = p; }
  else if (sd4_n == 2) { sd4_s2 = s; sd4_r2 = p; }
  else if (sd4_n == 3) { sd4_s3 = s; sd4_r3 = p; }
  if (sd4_n < 100) sd4_n++;
  return p;
}
