#include <sys/stat.h>
#include <errno.h>
#include "asprintf_shim.h"
#include "writer_tok.h"

struct wt_ghost wt;
int wt_kind[TOK_MAX];
const char *wt_s[TOK_MAX];
char wt_c[TOK_MAX];
size_t wt_len[TOK_MAX];
int wt_hsec[TOK_MAX];
static char wt_handle;
static int wt_errno;
int *__errno_location(void) { return &wt_errno; }

int stat(const char *path, struct stat *sb)
{
  __CPROVER_precondition(path != NULL && sb != NULL, "stat: arguments not NULL");
  if (wt.stat_ret != 0) { wt_errno = wt.stat_ret; return -1; }
  sb->st_mode = wt.stat_isdir ? S_IFDIR | 0755 : S_IFREG | 0644;
  return 0;
}
FILE *fopen(const char *path, const char *mode)
{
  __CPROVER_precondition(path != NULL && mode != NULL && mode[0] == 'w', "fopen for writing");
  wt.fopen_calls++;
  wt.path = path;
  if (wt.fopen_fails) return NULL;
  wt.open_now++;
  return (FILE *)&wt_handle;
}
int fclose(FILE *f)
{
  __CPROVER_precondition(f == (FILE *)&wt_handle && wt.open_now > 0, "fclose: the writer's open handle");
  wt.fclose_calls++; wt.open_now--;
  return 0;
}
static int eq(const char *a, const char *b) { return strcmp(a, b) == 0; }

int verif_fprintf(FILE *stream, const char *fmt, struct varg a, struct varg b, struct varg c)
{
  __CPROVER_precondition(stream == (FILE *)&wt_handle && wt.open_now > 0, "fprintf: the writer's open handle");
  int kind = T_OTHER; const char *s = NULL; char ch = 0;
  if (eq(fmt, "\n")) kind = T_NL;
  else if (eq(fmt, "%s\n")) { kind = T_HDR; s = a.s; }
  else if (eq(fmt, "%c%s\n")) { kind = T_CMT; ch = (char)a.i; s = b.s; }
  else if (eq(fmt, "%s%c")) { kind = T_KEY; s = a.s; ch = (char)b.i; }
  else if (eq(fmt, "\"%s\"")) { kind = T_QVAL; s = a.s; }
  else if (eq(fmt, "%s")) { kind = T_VAL; s = a.s; }
  else if (eq(fmt, " %c%s\n")) { kind = T_ACMT; ch = (char)a.i; s = b.s; }
  __CPROVER_assert(kind != T_OTHER, "C07: the writer emits only the token formats of the conventional grammar");
  __CPROVER_assert(kind == T_NL || s != NULL, "C04: no NULL string is printed");
  __CPROVER_assert(wt.n < TOK_MAX, "writer harness: token log large enough");
  if (wt.n < TOK_MAX) {
    size_t len = 0;
    if (s) while (s[len]) len++;
    wt_kind[wt.n] = kind; wt_s[wt.n] = s; wt_c[wt.n] = ch; wt_len[wt.n] = len;
    wt_hsec[wt.n] = (kind == T_HDR && len == 3 && s[0] == '[' && s[2] == ']' && (s[1] == 'A' || s[1] == 'B')) ? (s[1] == 'A' ? 1 : 2) : -1;
    wt.n++;
  }
  return 1;
}

char *strsep(char **stringp, const char *delim)
{
  char *s = *stringp;
  if (s == NULL) return NULL;
  for (size_t i = 0; ; i++) {
    if (s[i] == 0) { *stringp = NULL; return s; }
    for (size_t d = 0; delim[d]; d++)
      if (s[i] == delim[d]) { s[i] = 0; *stringp = s + i + 1; return s; }
  }
}
