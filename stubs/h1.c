/* Executable contracts of the callees of readConfigHistoryWithCallback
 * (job "history"): read_file_with_callback (contracts/rfwc.h), the object
 * constructor/destructor, and traverse_conf_dirs (verified in job "dropins"). */
#include <stdlib.h>
#include <string.h>
#include "asprintf_shim.h"
#include "h1.h"
#include "getfilecontents.h"
#include "mergefiles.h"

struct h1_ghost h1;
int h1_main_state[H1_LAYERS];
int h1_main_reads[H1_LAYERS + 1];        /* layers whose main file was offered, in order */
int h1_trav_layer[H1_LAYERS + 1];        /* layers whose drop-in dirs were traversed, in order */
int h1_trav_add[H1_LAYERS];              /* objects the traversal of that layer appends */
int h1_trav_err[H1_LAYERS];              /* error code it ends with (0 = none) */

int nondet_int(void);

econf_err econf_newKeyFile_with_options(econf_file **result, const char *options)
{
  __CPROVER_precondition(result != NULL && options != NULL && options[0] == 0, "plain object requested");
  econf_file *ef = calloc(1, sizeof(econf_file));
  __CPROVER_assume(ef != NULL);
  *result = ef;
  h1.live++;
  return ECONF_SUCCESS;
}

econf_file *econf_freeFile(econf_file *kf)
{
  if (!kf) return NULL;
  __CPROVER_assert(h1.live > 0, "C20: econf_freeFile on an object that is not live");
  free(kf->path);
  free(kf);            /* CBMC flags a second free of the same object */
  h1.live--;
  return NULL;
}

char **econf_freeArray(char **array)
{
  if (!array) return NULL;
  for (size_t i = 0; array[i]; i++) free(array[i]);
  free(array);
  return NULL;
}

static bool str_eq(const char *a, const char *b)
{
  size_t i = 0;
  for (; a[i] && b[i]; i++) if (a[i] != b[i]) return false;
  return a[i] == b[i];
}

static econf_err code_of(int state)
{
  return state == F_OK ? ECONF_SUCCESS : state == F_ABSENT ? ECONF_NOFILE :
         state == F_PARSE_ERROR ? ECONF_MISSING_BRACKET :
         state == F_REJECTED ? ECONF_PARSING_CALLBACK_FAILED : ECONF_WRONG_OWNER;
}

/* main files only: <dir>/<name><suffix>, dir = "/0".."/2" */
econf_err read_file_with_callback(econf_file **key_file, const char *file_name,
                                  const char *delim, const char *comment,
                                  bool (*callback)(const char *filename, const void *data),
                                  const void *callback_data)
{
  __CPROVER_assert(key_file != NULL && *key_file != NULL && file_name != NULL, "reader passes an object and a path");
  __CPROVER_assert(callback == h1.cb && callback_data == h1.cb_data,
                   "C06: the caller's callback and data pointer are forwarded unchanged");
  __CPROVER_assert(delim == h1.delim && comment == h1.comment, "C12: delimiters and comment set forwarded");
  __CPROVER_assert((*key_file)->join_same_entries == h1.join && (*key_file)->python_style == h1.python,
                   "C15: parsing options forwarded");
  int layer = file_name[0] == '/' ? file_name[1] - '0' : -1;
  __CPROVER_assert(layer >= 0 && layer < h1.nlayers && file_name[2] == '/' && str_eq(file_name + 3, h1.main_tail),
                   "C01: the main file is <layer dir>/<name><normalised suffix>");
  if (h1.nmain <= H1_LAYERS) h1_main_reads[h1.nmain] = layer;
  h1.nmain++;
  __CPROVER_assert(h1.ntrav == 0, "C01: main files are looked for before any drop-in directory");
  if (layer < 0 || layer >= h1.nlayers) return ECONF_ERROR;
  int state = h1_main_state[layer];
  if (state == F_OK) { (*key_file)->path = strdup(file_name); return ECONF_SUCCESS; }
  if (state == F_PARSE_ERROR) { econf_freeFile(*key_file); *key_file = NULL; }
  return code_of(state);
}

/* contract of traverse_conf_dirs (+ check_conf_dir): appends the successfully
 * read drop-ins of one layer to the array using the size/realloc protocol,
 * or stops at the first failing one and returns its code, leaving what it
 * appended so far in the array */
econf_err traverse_conf_dirs(econf_file ***key_files, char *config_dirs[], size_t *size, const char *path,
                             const char *config_suffix, const char *delim, const char *comment,
                             const bool join_same_entries, const bool python_style,
                             bool (*callback)(const char *filename, const void *data),
                             const void *callback_data)
{
  __CPROVER_assert(callback == h1.cb && callback_data == h1.cb_data,
                   "C06: the caller's callback and data pointer are forwarded unchanged");
  __CPROVER_assert(delim == h1.delim && comment == h1.comment && join_same_entries == h1.join && python_style == h1.python,
                   "C12/C15: delimiters, comment set and options forwarded");
  __CPROVER_assert(str_eq(config_suffix, h1.suffix_norm), "C01: drop-ins are selected by the normalised suffix");
  int layer = path[0] == '/' ? path[1] - '0' : -1;
  __CPROVER_assert(layer >= 0 && layer < h1.nlayers && path[2] == '/' && str_eq(path + 3, h1.name),
                   "C01: drop-in directories hang off <layer dir>/<name>");
  /* the directory list: default <suffix>.d, or the given postfixes in order */
  __CPROVER_assert(config_dirs != NULL, "C01: a drop-in directory list is passed");
  for (int p = 0; p < H1_POST; p++)
    if (p < h1.npost)
      __CPROVER_assert(config_dirs[p] != NULL && str_eq(config_dirs[p], h1.post[p]), "C01: drop-in directory postfixes in order");
  __CPROVER_assert(config_dirs[h1.npost] == NULL, "C01: postfix list is NULL-terminated");
  __CPROVER_assert(key_files && *key_files && size && *size >= 1, "array and size handed over (size counts the free slot)");
  if (h1.ntrav <= H1_LAYERS) h1_trav_layer[h1.ntrav] = layer;
  h1.ntrav++;
  if (layer < 0 || layer >= h1.nlayers) return ECONF_ERROR;
  for (int k = 0; k < 2; k++)
    if (k < h1_trav_add[layer]) {
      econf_file *ef = NULL;
      econf_newKeyFile_with_options(&ef, "");
      ef->on_merge_delete = 1;
      (*key_files)[*size - 1] = ef;
      ++*size;
      econf_file **np = malloc(*size * sizeof(econf_file *));
      __CPROVER_assume(np != NULL);
      for (size_t i = 0; i < H1_MAXFILES; i++)
        if (i + 1 < *size) np[i] = (*key_files)[i];
      free(*key_files);
      *key_files = np;
    }
  return (econf_err)h1_trav_err[layer];
}

/* snprintf(buf, size, "%s%c%s", a, c, b) of combine_strings */
int verif_snprintf(char *buf, size_t size, const char *fmt, struct varg a, struct varg b, struct varg c)
{
  __CPROVER_precondition(str_eq(fmt, "%s%c%s"), "snprintf: only the combine_strings format is modelled here");
  __CPROVER_precondition(a.kind == VK_STR && a.s && b.kind == VK_INT && c.kind == VK_STR && c.s, "snprintf %s%c%s arguments");
  size_t n = 0;
  for (size_t i = 0; a.s[i]; i++) { if (n + 1 < size) buf[n] = a.s[i]; n++; }
  if (n + 1 < size) buf[n] = (char)b.i; n++;
  for (size_t i = 0; c.s[i]; i++) { if (n + 1 < size) buf[n] = c.s[i]; n++; }
  if (size > 0) buf[n < size ? n : size - 1] = 0;
  return (int)n;
}

char *stpcpy(char *dst, const char *src)
{
  size_t i = 0;
  for (; src[i]; i++) dst[i] = src[i];
  dst[i] = 0;
  return dst + i;
}
