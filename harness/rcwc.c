/* readConfigWithCallback under contract (contracts/rcwc.h). */
#include "common.h"
#include "rcwc.h"
struct rc_ghost rc;
static bool cb_stub(const char *f, const void *d) { (void)f; (void)d; return true; }
econf_err nondet_code(void);
int main(void)
{
  rc = (struct rc_ghost){0};
  econf_file *obj = NULL;
  if (nondet_bool()) {
    obj = malloc(sizeof(econf_file));
    __CPROVER_assume(obj != NULL);
    obj->parse_dirs = nondet_ptr(); obj->parse_dirs_count = nondet_int();
    obj->conf_dirs = nondet_ptr(); obj->conf_count = nondet_int();
    obj->join_same_entries = nondet_bool(); obj->python_style = nondet_bool();
  }
  rc.obj = obj;
  rc.name = nondet_ptr(); rc.suffix = nondet_ptr(); rc.delim = nondet_ptr(); rc.comment = nondet_ptr();
  rc.dirs = nondet_ptr(); rc.ndirs = nondet_int();
  rc.cb = nondet_bool() ? cb_stub : NULL; rc.cb_data = nondet_ptr();
  rc.hist_ret = nondet_code(); __CPROVER_assume(IS_CODE(rc.hist_ret));
  rc.merge_ret = nondet_code(); __CPROVER_assume(IS_CODE(rc.merge_ret));
  rc.hist_array = malloc(2 * sizeof(econf_file *)); __CPROVER_assume(rc.hist_array != NULL);
  rc.hist_size = nondet_size_t();
  rc.merge_result = nondet_ptr();
  econf_file *res = obj;
  econf_err r = readConfigWithCallback(&res, rc.name, rc.suffix, rc.delim, rc.comment, rc.dirs, rc.ndirs, rc.cb, rc.cb_data);
  VACUITY(r == ECONF_SUCCESS && rc.merge_calls == 1, "merged read reachable");
  VACUITY(r == ECONF_PARSING_CALLBACK_FAILED && rc.merge_calls == 0, "rejected file reachable");
  VACUITY(obj == NULL, "missing object reachable");
  VACUITY(obj != NULL && obj->conf_count > 0, "object with own drop-in dirs reachable");
  VACUITY_END();
  return 0;
}
