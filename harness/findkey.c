/* find_key under contract with a loop contract: entry array of symbolic,
 * unbounded length whose contents are left unconstrained. */
#include "common.h"
#include "findkey.h"
int main(void)
{
  econf_file kf;
  kf.length = nondet_size_t();
  kf.alloc_length = kf.length;
  __CPROVER_assume(kf.length <= MAX_ENTRIES);
  kf.file_entry = kf.length ? mk_entries(kf.length) : NULL;
  const char *group = nondet_bool() ? NULL : mk_string(1 << 16);
  const char *key = nondet_bool() ? NULL : mk_string(1 << 16);
  size_t num = nondet_size_t();
  econf_err r = find_key(kf, group, key, &num);
  VACUITY(r == ECONF_SUCCESS, "found reachable");
  VACUITY(r == ECONF_NOKEY, "not found reachable");
  VACUITY(r == ECONF_ERROR, "refused reachable");
  VACUITY_END();
  return 0;
}
