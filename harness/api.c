/* One public set/get/list operation on an ARBITRARY well-formed object with
 * N live entries (C11, C10, C07, C20) - inductive per operation: because the
 * start state is arbitrary, the result holds for operation sequences of any
 * length that stay within the entry bound.
 *
 *  -DN=0..3        live entries; section (group-less, A, B) and key (x, y) of
 *                  each entry symbolic; a (section,key) may occur twice
 *  -DSLACK=0|1|5   unused pre-initialised slots behind them (0 = parser-style)
 *  -DOP=           1 econf_setStringValue   2 econf_getStringValue
 *                  3 econf_getStringValueDef 4 econf_getGroups 5 econf_getKeys
 *                  6 econf_setIntValue (typed store through the same path)
 *  -DSTART_NEW     start from econf_newKeyFile()/econf_newIniFile()/
 *                  econf_newKeyFile_with_options() instead (N = 0)
 * The expected result is computed by a reference ordered map over
 * (section id, key id). */
#include "common.h"
#include "helpers.h"
#include "defines.h"
#include "numtext.h"

#ifndef N
#define N 2
#endif
#ifndef SLACK
#define SLACK 0
#endif
#define MAXE 4

/* one section name is a proper prefix of the other, one key of the other: a lookup that
 * compares prefixes only is told apart */
static const char *GNAME[3] = { "_none_", "AB", "A" };
static const char *KNAME[2] = { "x", "xy" };
static const char *VAL[MAXE] = { "v0", "v1", "v2", "v3" };

unsigned char in_g[MAXE], in_k[MAXE];
int in_garg, in_karg;      /* how the caller spells section and key */

static int gid_of(const char *g) { return g[0] == '_' ? 0 : g[1] == 'B' ? 1 : 2; }
static int kid_of(const char *k) { return k[1] == 0 ? 0 : 1; }

static econf_file *build(void)
{
#ifdef START_NEW
  econf_file *ef = NULL;
  econf_err e;
#if START_NEW == 1
  e = econf_newKeyFile(&ef, '=', '#');
#elif START_NEW == 2
  e = econf_newIniFile(&ef);
#else
  e = econf_newKeyFile_with_options(&ef, "");
#endif
  __CPROVER_assert(e == ECONF_SUCCESS && ef != NULL, "C11: constructors succeed");
  return ef;
#else
  econf_file *ef = calloc(1, sizeof(econf_file));
  __CPROVER_assume(ef != NULL);
  ef->delimiter = '='; ef->comment = '#';
  size_t alloc = N + SLACK;
  if (alloc > 0) {
    ef->file_entry = malloc(alloc * sizeof(struct file_entry));
    __CPROVER_assume(ef->file_entry != NULL);
  }
  ef->alloc_length = alloc;
  ef->length = N;
  ef->groups = malloc(4 * sizeof(char *));
  __CPROVER_assume(ef->groups != NULL);
  char *gp[3] = { NULL, NULL, NULL };
  if (SLACK > 0) { gp[0] = strdup("_none_"); ef->groups[ef->group_count++] = gp[0]; }
  for (size_t i = 0; i < N; i++) {
    int g = in_g[i];
    if (!gp[g]) { gp[g] = strdup(GNAME[g]); ef->groups[ef->group_count++] = gp[g]; }
  }
  ef->groups[ef->group_count] = NULL;
  if (ef->group_count == 0) { free(ef->groups); ef->groups = NULL; }
  for (size_t i = 0; i < alloc; i++) {
    struct file_entry *e = &ef->file_entry[i];
    if (i < N) { e->group = gp[in_g[i]]; e->key = strdup(KNAME[in_k[i]]); e->value = strdup(VAL[i]); e->line_number = i + 1; }
    else { e->group = gp[0]; e->key = strdup("_none_"); e->value = strdup("_none_"); e->line_number = 0; }
    e->comment_before_key = NULL; e->comment_after_value = NULL; e->quotes = false;
  }
  return ef;
#endif
}

/* representation invariant (DESIGN.md 5.6) */
static bool wf(const econf_file *ef)
{
  if (ef->length > ef->alloc_length) return false;
  if ((ef->alloc_length == 0) != (ef->file_entry == NULL)) return false;
  if (ef->group_count > 0 && (ef->groups == NULL || ef->groups[ef->group_count] != NULL)) return false;
  for (size_t i = 0; i < MAXE + 8; i++)
    if (i < ef->alloc_length) {
      const struct file_entry *e = &ef->file_entry[i];
      if (e->key == NULL || e->group == NULL) return false;
      bool found = false;
      for (int g = 0; g < 4; g++)
        if (g < ef->group_count && ef->groups[g] == e->group) found = true;
      if (!found) return false;
    }
  return true;
}

int main(void)
{
  for (size_t i = 0; i < MAXE; i++) { in_g[i] = nondet_uint32() % 3; in_k[i] = nondet_bool(); }
  econf_file *ef = build();
#ifdef START_NEW
  const size_t n0 = 0;
  __CPROVER_assert(ef->length == 0 && wf(ef), "C11: a fresh object is empty and well-formed");
#else
  const size_t n0 = N;
#endif
  /* snapshot for "nothing else changes" */
  struct file_entry snap[MAXE + 8];
  const size_t alloc0 = ef->alloc_length;
  for (size_t i = 0; i < MAXE + 8; i++) if (i < alloc0) snap[i] = ef->file_entry[i];
  const int gc0 = ef->group_count;
  char **const groups0 = ef->groups;
  char *gsnap[4] = { NULL, NULL, NULL, NULL };
  for (int i = 0; i < 4; i++) if (i < gc0) gsnap[i] = groups0[i];

  /* the caller's arguments: section spelled NULL, "", "[]", "AB", "[AB]", "A", "[A]"; key NULL, "", "x", "xy" */
  in_garg = nondet_int(); in_karg = nondet_int();
  __CPROVER_assume(in_garg >= 0 && in_garg <= 6 && in_karg >= 0 && in_karg <= 3);
#if OP == 5
  /* the statement promises bracket-insensitivity for value getters/setters only */
  __CPROVER_assume(in_garg != 2 && in_garg != 4 && in_garg != 6);
#endif
  static const char *GARG[7] = { NULL, "", "[]", "AB", "[AB]", "A", "[A]" };
  static const int GARG_ID[7] = { 0, 0, 0, 1, 1, 2, 2 };
  static const char *KARG[4] = { NULL, "", "x", "xy" };
  const char *garg = GARG[in_garg], *karg = KARG[in_karg];
  const int g = GARG_ID[in_garg], k = in_karg - 2;      /* k < 0: no key */
  /* reference lookup: first entry with (g,k) */
  int first = -1;
  for (size_t i = 0; i < MAXE; i++)
    if (i < n0 && first < 0 && k >= 0 && in_g[i] == g && in_k[i] == k) first = (int)i;

#if OP == 1 || OP == 6
#if OP == 1
  econf_err r = econf_setStringValue(ef, garg, karg, "new");
  const char *want_text = "new";
#else
  econf_err r = econf_setIntValue(ef, garg, karg, -42);
  const char *want_text = "-42";
#endif
  if (k < 0) {
    __CPROVER_assert(r != ECONF_SUCCESS, "C11: a call without key or with an empty key is refused with an error code");
    __CPROVER_assert(ef->length == n0 && ef->alloc_length == alloc0, "C11: ... and has no effect");
    for (size_t i = 0; i < MAXE + 8; i++)
      if (i < alloc0)
        __CPROVER_assert(ef->file_entry[i].key == snap[i].key && ef->file_entry[i].value == snap[i].value &&
                         ef->file_entry[i].group == snap[i].group, "C11: a refused call changes no entry");
  } else {
    __CPROVER_assert(r == ECONF_SUCCESS, "C11: set succeeds");
    __CPROVER_assert(wf(ef), "C11: the object stays well-formed (length <= alloc_length, every slot initialised, sections interned)");
    size_t at = first >= 0 ? (size_t)first : n0;
    __CPROVER_assert(ef->length == (first >= 0 ? n0 : n0 + 1), "C11: a set creates or replaces exactly one entry");
    if (ef->length == (first >= 0 ? n0 : n0 + 1)) {
      const struct file_entry *e = &ef->file_entry[at];
      __CPROVER_assert(gid_of(e->group) == g && strcmp(e->group, GNAME[g]) == 0 && strcmp(e->key, KNAME[k]) == 0,
                       "C11: the entry is (section, key); bracketed/plain/NULL/empty section spellings agree; new keys are appended at the end");
#if OP == 6
      __CPROVER_assert(e->value != NULL && e->value == g_tag_ptr && g_tag_kind == TAG_INT && g_tag_int == -42,
                       "C11: the typed setter stores the text of its value in that entry");
#else
      __CPROVER_assert(e->value != NULL && strcmp(e->value, want_text) == 0, "C11: a get returns the text last set");
#endif
      if (first < 0)
        __CPROVER_assert(e->line_number == 0 && e->comment_before_key == NULL && e->comment_after_value == NULL && !e->quotes,
                         "C20: every field of a freshly appended entry is determined");
      for (size_t i = 0; i < MAXE; i++)
        if (i < n0 && i != at)
          __CPROVER_assert(strcmp(ef->file_entry[i].key, KNAME[in_k[i]]) == 0 && gid_of(ef->file_entry[i].group) == in_g[i] &&
                           strcmp(ef->file_entry[i].value, VAL[i]) == 0, "C11: all other entries are untouched, in the same order");
    }
  }
#elif OP == 2 || OP == 3
  char *out = (char *)GNAME[2];        /* sentinel */
#if OP == 2
  econf_err r = econf_getStringValue(ef, garg, karg, &out);
#else
  static char def[] = "dflt";
  econf_err r = econf_getStringValueDef(ef, garg, karg, &out, def);
#endif
  if (k < 0)
    __CPROVER_assert(r != ECONF_SUCCESS && r != ECONF_NOKEY, "C11: a call without key or with an empty key is refused with an error code");
  else if (first >= 0) {
    __CPROVER_assert(r == ECONF_SUCCESS && out != NULL && strcmp(out, VAL[first]) == 0,
                     "C11: a get returns the first definition of (section,key); section spellings agree");
    __CPROVER_assert(out != ef->file_entry[first].value, "C10: the caller gets a copy, not the stored string");
  } else {
    __CPROVER_assert(r == ECONF_NOKEY, "C11: an absent key is reported as not found");
#if OP == 3
    __CPROVER_assert(out != NULL && strcmp(out, "dflt") == 0 && out != def, "C11: a defaulted get returns (a copy of) the default exactly when the key is absent");
#endif
  }
#if OP == 3
  if (k >= 0 && first >= 0) __CPROVER_assert(strcmp(out, "dflt") != 0, "C11: ... and not when it is present");
#endif
#elif OP == 4
  size_t len = 77; char **groups = NULL;
  econf_err r = econf_getGroups(ef, &len, &groups);
  /* reference: sections of the live entries in order of first appearance */
  int want[3], nw = 0;
  for (size_t i = 0; i < MAXE; i++)
    if (i < n0 && in_g[i] != 0) {
      bool seen = false;
      for (int j = 0; j < 3; j++) if (j < nw && want[j] == in_g[i]) seen = true;
      if (!seen) want[nw++] = in_g[i];
    }
  if (nw > 0) {
    __CPROVER_assert(r == ECONF_SUCCESS && len == (size_t)nw && groups != NULL, "C11: the listing returns exactly the live sections");
    if (r == ECONF_SUCCESS && groups && len == (size_t)nw) {
      for (int j = 0; j < 3; j++)
        if (j < nw) __CPROVER_assert(groups[j] != NULL && strcmp(groups[j], GNAME[want[j]]) == 0, "C11: sections in insertion order");
      __CPROVER_assert(groups[nw] == NULL, "C11: the section list is NULL-terminated");
    }
  } else {
    __CPROVER_assert(r == ECONF_NOGROUP || (r == ECONF_SUCCESS && len == 0), "C11: no section: not-found code or an empty list");
  }
#elif OP == 5
  size_t len = 77; char **keys = NULL;
  econf_err r = econf_getKeys(ef, garg, &len, &keys);
  int wantk[MAXE], nw = 0;
  for (size_t i = 0; i < MAXE; i++)
    if (i < n0 && in_g[i] == g) wantk[nw++] = in_k[i];
  if (nw > 0) {
    __CPROVER_assert(r == ECONF_SUCCESS && len == (size_t)nw && keys != NULL, "C11: the listing returns exactly the live keys of the section");
    if (r == ECONF_SUCCESS && keys && len == (size_t)nw) {
      for (int j = 0; j < MAXE; j++)
        if (j < nw) __CPROVER_assert(keys[j] != NULL && strcmp(keys[j], KNAME[wantk[j]]) == 0, "C11: keys in insertion order");
      __CPROVER_assert(keys[nw] == NULL, "C11: the key list is NULL-terminated");
    }
  } else {
    __CPROVER_assert(r == ECONF_NOKEY && len == 0, "C11: a section without keys is reported as not found");
  }
#endif
#if OP >= 2 && OP <= 5
  /* C10: queries do not change the object */
  __CPROVER_assert(ef->length == n0 && ef->alloc_length == alloc0 && wf(ef), "C10: a query leaves the object as it was");
  __CPROVER_assert(ef->group_count == gc0 && ef->groups == groups0, "C10: a query adds or removes no section");
  for (int i = 0; i < 4; i++)
    if (i < gc0 && ef->groups == groups0) __CPROVER_assert(ef->groups[i] == gsnap[i], "C10: a query changes no section name");
  for (size_t i = 0; i < MAXE + 8; i++)
    if (i < alloc0)
      __CPROVER_assert(ef->file_entry[i].key == snap[i].key && ef->file_entry[i].value == snap[i].value &&
                       ef->file_entry[i].group == snap[i].group, "C10: a query changes no entry");
  for (size_t i = 0; i < MAXE; i++)
    if (i < n0)
      __CPROVER_assert(strcmp(ef->file_entry[i].value, VAL[i]) == 0 && strcmp(ef->file_entry[i].key, KNAME[in_k[i]]) == 0 &&
                       gid_of(ef->file_entry[i].group) == in_g[i], "C10: a query changes no stored text");
#endif
  /* C20: the documented destructor accepts the object */
  econf_file *z = econf_freeFile(ef);
  __CPROVER_assert(z == NULL, "C20: the free function returns NULL");
#if !((OP >= 2 && OP <= 5) && N == 0 && !defined(START_NEW)) && !(defined(START_NEW) && (OP >= 2 && OP <= 5))
  VACUITY(r == ECONF_SUCCESS, "success reachable");
#endif
#if OP != 4
  VACUITY(r != ECONF_SUCCESS, "refusal reachable");
#endif
  VACUITY_END();
  return 0;
}
