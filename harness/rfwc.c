/* read_file_with_callback under contract: every lstat outcome, every
 * combination of the restriction flags, callback absent / accepting /
 * rejecting, path resolution failing, parser failing with any code. */
#include "common.h"
#include "rfwc.h"

bool cb_stub(const char *filename, const void *data);
uid_t nondet_uid(void);
gid_t nondet_gid(void);
mode_t nondet_mode(void);

int main(void)
{
  /* dfcc starts every static object in an arbitrary state; the ghost log
   * must start empty */
  g = (struct rfwc_ghost){0};
  /* process-wide restriction flags: any state */
  allow_follow_symlinks = nondet_bool();
  file_owner_set = nondet_bool(); file_owner = nondet_uid();
  file_group_set = nondet_bool(); file_group = nondet_gid();
  file_permissions_set = nondet_bool();
  file_perms_file = nondet_mode(); file_perms_dir = nondet_mode();
  /* file system answers */
  g.lstat_ret = nondet_bool() ? -1 : 0;
  g.st_mode = nondet_mode(); g.st_uid = nondet_uid(); g.st_gid = nondet_gid();
  g.dir_lstat_ret = nondet_bool() ? -1 : 0; g.dir_st_mode = nondet_mode();
  g.cb_ret = nondet_bool();
  /* arguments */
  econf_file *obj = malloc(sizeof(econf_file));
  __CPROVER_assume(obj != NULL);
  g.obj = obj;
  econf_file *kfp = obj;
  econf_file **key_file = nondet_bool() ? NULL : &kfp;
  char *name = nondet_bool() ? NULL : mk_string(1 << 16);
  char *delim = nondet_bool() ? NULL : mk_string(4);
  char *comment = nondet_bool() ? NULL : mk_string(4);
  g.name = name;
  g.delim_arg = delim; g.comment_arg = comment;
  g.cb_data = nondet_ptr();
  g.cb_given = nondet_bool();
  econf_err r = read_file_with_callback(key_file, name, delim, comment,
                                        g.cb_given ? cb_stub : NULL, g.cb_data);
  VACUITY(r == ECONF_SUCCESS, "success reachable");
  VACUITY(r == ECONF_SUCCESS && comment[0] == 0, "success with an empty comment set reachable");
  VACUITY(r == ECONF_WRONG_OWNER, "wrong owner reachable");
  VACUITY(r == ECONF_WRONG_GROUP, "wrong group reachable");
  VACUITY(r == ECONF_ERROR_FILE_IS_SYM_LINK, "symlink refusal reachable");
  VACUITY(r == ECONF_PARSING_CALLBACK_FAILED, "callback rejection reachable");
  VACUITY(g.rf_calls == 1 && r != ECONF_SUCCESS, "parse failure reachable");
  VACUITY(r == ECONF_WRONG_DIR_PERMISSION, "dir permission refusal reachable");
  VACUITY_END();
  return 0;
}
