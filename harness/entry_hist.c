/* econf_readDirsHistoryWithCallback (-DFN=1) / econf_readDirsHistory
 * (-DFN=2) under contract (contracts/entry_hist.h). */
#include "common.h"
#include "entry_hist.h"

struct eh_ghost eh;
static bool cb_stub(const char *f, const void *d) { (void)f; (void)d; return true; }
econf_err nondet_code(void);
econf_file **nondet_arr(void);

int main(void)
{
  eh = (struct eh_ghost){0};    /* dfcc starts every static object in an arbitrary state */
  sd_n = 0; sd_src0 = sd_src1 = NULL; sd_res0 = sd_res1 = NULL;
  eh.dirs = verif_process_conf_dirs(); eh.ndirs = verif_process_conf_count();
  static char dist_buf[8], etc_buf[8];   /* any strings of up to 7 bytes (static: the leak check is about the call) */
  dist_buf[7] = 0; etc_buf[7] = 0;
  eh.dist = nondet_bool() ? NULL : dist_buf;
  eh.etc = nondet_bool() ? NULL : etc_buf;
  eh.name = nondet_ptr(); eh.suffix = nondet_ptr(); eh.delim = nondet_ptr(); eh.comment = nondet_ptr();
  eh.hist_ret = nondet_code(); __CPROVER_assume(IS_CODE(eh.hist_ret));
  eh.hist_array = nondet_arr(); eh.hist_size = nondet_size_t();
  econf_file **kfs = nondet_arr(); size_t size = nondet_size_t();
  eh.out = &kfs; eh.out_size = &size;
#if FN == 1
  eh.cb = nondet_bool() ? cb_stub : NULL; eh.cb_data = nondet_ptr();
  econf_err r = econf_readDirsHistoryWithCallback(&kfs, &size, eh.dist, eh.etc, eh.name, eh.suffix, eh.delim, eh.comment, eh.cb, eh.cb_data);
#else
  eh.cb = NULL; eh.cb_data = NULL;
  econf_err r = econf_readDirsHistory(&kfs, &size, eh.dist, eh.etc, eh.name, eh.suffix, eh.delim, eh.comment);
#endif
  VACUITY(r == ECONF_SUCCESS, "history read reachable");
  VACUITY(r == ECONF_WRONG_OWNER, "refused file reachable");
  VACUITY(eh.dist == NULL && eh.etc != NULL, "missing distribution directory reachable");
  VACUITY_END();
  return 0;
}
