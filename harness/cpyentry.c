/* cpy_file_entry under contract (contracts/cpyentry.h): source texts are
 * distinct objects of symbolic size, never read. */
#include "common.h"
#include "cpyentry.h"
struct cp_ghost cp;
int main(void)
{
  cp = (struct cp_ghost){0};
  sd4_n = 0; sd4_s0 = sd4_s1 = sd4_s2 = sd4_s3 = NULL; sd4_r0 = sd4_r1 = sd4_r2 = sd4_r3 = NULL;
  static econf_file dest;
  struct file_entry fe;
  fe.group = mk_string(MAX_ENTRIES);
  fe.key = mk_string(MAX_ENTRIES);
  fe.value = nondet_bool() ? NULL : mk_string(MAX_ENTRIES);
  fe.comment_before_key = nondet_bool() ? NULL : mk_string(MAX_ENTRIES);
  fe.comment_after_value = nondet_bool() ? NULL : mk_string(MAX_ENTRIES);
  fe.line_number = nondet_uint64();
  fe.quotes = nondet_bool();
  cp.gl_ret = nondet_ptr();
  struct file_entry c = cpy_file_entry(&dest, fe);
  /* the four texts of the copy are four different objects */
  __CPROVER_assert(c.value == NULL || c.value != c.key, "copy: value and key are different objects");
  __CPROVER_assert(c.comment_before_key == NULL || (c.comment_before_key != c.key && c.comment_before_key != c.value),
                   "copy: first comment is its own object");
  __CPROVER_assert(c.comment_after_value == NULL || (c.comment_after_value != c.key && c.comment_after_value != c.value &&
                                                     c.comment_after_value != c.comment_before_key),
                   "copy: second comment is its own object");
  VACUITY(fe.value != NULL && fe.comment_before_key != NULL && fe.comment_after_value != NULL, "all texts present reachable");
  VACUITY(fe.value == NULL && fe.comment_before_key == NULL && fe.comment_after_value == NULL, "bare key reachable");
  VACUITY_END();
  return 0;
}
