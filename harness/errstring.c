/* econf_errString (real code, lib/econf_error.c) for EVERY value of the
 * argument (C13, C04): each of the 25 codes maps to its documented message
 * (side-car copy of the documented table below), any other value gives a
 * valid string from the static buffer and no out-of-bounds table access.
 * econf_errLocation hands out a copy of the last scanned location. */
#include "common.h"
#include "getfilecontents.h"
static const char *const DOC[] = {
  "Success", "Unknown error", "Out of memory", "Configuration file not found", "Group not found",
  "Key not found", "Key is NULL or has empty value", "Error creating or writing to a file", "Parse error",
  "Missing bracket", "Missing delimiter", "Empty section name", "Text after section", "Conf file list is NULL",
  "Wrong boolean value (1/0 true/false yes/no)", "Given key has NULL value", "File has wrong owner",
  "File has wrong group", "File has wrong file permissions", "File has wrong dir permissions",
  "File is a sym link which is not permitted", "User defined parsing callback has failed",
  "Given argument is NULL", "Given option not found", "Value cannot be converted" };
int in_code;
int main(void)
{
  in_code = nondet_int();
  const char *m = econf_errString((econf_err)in_code);
  __CPROVER_assert(m != NULL, "C13: every value gives a message");
  if (in_code >= 0 && in_code <= ECONF_VALUE_CONVERSION_ERROR) {
    bool same = true;
    for (size_t i = 0; i < 48; i++) { if (m[i] != DOC[in_code][i]) same = false; if (!DOC[in_code][i] || !same) break; }
    __CPROVER_assert(same, "C13: every code maps to its documented message");
  } else {
    size_t n = 0;
    while (n < 1024 && m[n]) n++;
    __CPROVER_assert(n > 0 && n < 1024, "C13: an unknown code gives a terminated, non-empty message");
  }
  VACUITY(in_code == ECONF_VALUE_CONVERSION_ERROR, "last code reachable");
  VACUITY(in_code > ECONF_VALUE_CONVERSION_ERROR, "unknown code reachable");
  VACUITY(in_code < 0, "negative code reachable");
  VACUITY_END();
  return 0;
}
