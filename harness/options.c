/* econf_newKeyFile_with_options (real code) on an option string made of up
 * to three catalogue items (C15, C20).  -DI0 -DI1 -DI2: item numbers (0 =
 * none).  The string is concrete per job; the expectation is computed from
 * the item numbers by the documented semantics: every item has its effect,
 * an item given twice acts as its last occurrence, an unknown name (or a
 * documented name with another value) is answered with option-not-found. */
#include "common.h"

#ifndef I0
#define I0 1
#endif
#ifndef I1
#define I1 0
#endif
#ifndef I2
#define I2 0
#endif

static const char *ITEM[] = { NULL,
  /* 1 */ "JOIN_SAME_ENTRIES=1", /* 2 */ "PYTHON_STYLE=1", /* 3 */ "PARSING_DIRS=/a:/b", /* 4 */ "PARSING_DIRS=/c",
  /* 5 */ "CONFIG_DIRS=.d:/x.d", /* 6 */ "CONFIG_DIRS=c.d", /* 7 */ "ROOT_PREFIX=/r", /* 8 */ "ROOT_PREFIX=/q",
  /* 9 */ "BOGUS=1", /* 10 */ "JOIN_SAME_ENTRIES=0", /* 11 */ "PYTHON_STYLE", /* 12 */ "parsing_dirs=/a" };
#define UNKNOWN(i) ((i) >= 9)

static bool arr_is(char **arr, int count, const char *a, const char *b)
{
  int want = a ? (b ? 2 : 1) : 0;
  if (count != want) return false;
  if (want == 0) return true;
  if (!arr || !arr[0] || strcmp(arr[0], a) != 0) return false;
  if (want == 2 && (!arr[1] || strcmp(arr[1], b) != 0)) return false;
  return arr[want] == NULL;
}

int main(void)
{
  int ids[3] = { I0, I1, I2 };
  char opt[80]; size_t n = 0;
  for (int k = 0; k < 3; k++)
    if (ids[k]) {
      if (n) opt[n++] = ';';
      for (size_t i = 0; ITEM[ids[k]][i]; i++) opt[n++] = ITEM[ids[k]][i];
    }
  opt[n] = 0;
  char *in_opt = malloc(n + 1);
  __CPROVER_assume(in_opt != NULL);
  for (size_t i = 0; i <= n; i++) in_opt[i] = opt[i];

  econf_file *ef = NULL;
  econf_err r = econf_newKeyFile_with_options(&ef, in_opt);

  /* reference */
  bool join = false, python = false, bad = false;
  int pd = 0, cd = 0, rp = 0;
  for (int k = 0; k < 3 && !bad; k++) {
    int i = ids[k];
    if (!i) continue;
    if (UNKNOWN(i)) bad = true;
    else if (i == 1) join = true; else if (i == 2) python = true;
    else if (i == 3 || i == 4) pd = i; else if (i == 5 || i == 6) cd = i; else rp = i;
  }
  __CPROVER_assert(r == (bad ? ECONF_OPTION_NOT_FOUND : ECONF_SUCCESS),
                   "C15: documented items are accepted, an unknown or misspelt item is answered with option-not-found");
  __CPROVER_assert(ef != NULL, "C20: the object is handed out (also with option-not-found) and can be released");
  if (ef && !bad) {
    __CPROVER_assert(ef->join_same_entries == join && ef->python_style == python, "C15: JOIN_SAME_ENTRIES / PYTHON_STYLE set exactly when given");
    __CPROVER_assert(arr_is(ef->parse_dirs, ef->parse_dirs_count, pd == 3 ? "/a" : pd == 4 ? "/c" : NULL, pd == 3 ? "/b" : NULL),
                     "C15: PARSING_DIRS gives exactly the listed directories; given twice, the last occurrence counts");
    __CPROVER_assert(arr_is(ef->conf_dirs, ef->conf_count, cd == 5 ? ".d" : cd == 6 ? "c.d" : NULL, cd == 5 ? "/x.d" : NULL),
                     "C15: CONFIG_DIRS gives exactly the listed postfixes; given twice, the last occurrence counts");
    __CPROVER_assert(rp ? (ef->root_prefix && strcmp(ef->root_prefix, rp == 7 ? "/r" : "/q") == 0) : ef->root_prefix == NULL,
                     "C15: ROOT_PREFIX is the last one given");
    __CPROVER_assert(ef->length == 0 && ef->alloc_length == 0 && ef->file_entry == NULL, "C11: the object starts empty");
  }
  /* the caller's string is not modified */
  for (size_t i = 0; i <= n; i++) __CPROVER_assert(in_opt[i] == opt[i], "C10: the option string is not modified");
  econf_file *z = econf_freeFile(ef);
  __CPROVER_assert(z == NULL, "C20: the free function returns NULL");
  free(in_opt);   /* with --memory-leak-check: nothing allocated by the library remains */
  VACUITY_END();
  return 0;
}
