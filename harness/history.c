/* readConfigHistoryWithCallback (real code, lib/readconfig.c) against the
 * executable contracts of its callees (stubs/h1.c)  -  C01 C06 C12 C13 C20.
 *
 * -DNLAYERS=1..3  -DNPOST=0..2 (0 = default "<suffix>.d")
 * -DSUFFIX_ARG=<literal or NULL>  -DSUFFIX_NORM=<literal>: the normalised
 * suffix the statement prescribes (one leading dot, or empty)
 * Symbolic: every main-file state, per layer how many drop-ins its traversal
 * appends (0..2) and the error it ends with, callback / data / options. */
#include "common.h"
#include "h1.h"
#include "readconfig.h"

#ifndef NLAYERS
#define NLAYERS 2
#endif
#ifndef NPOST
#define NPOST 0
#endif
#ifndef SUFFIX_ARG
#define SUFFIX_ARG ".s"
#define SUFFIX_NORM ".s"
#endif

int in_main_state[H1_LAYERS], in_trav_add[H1_LAYERS], in_trav_err[H1_LAYERS];

static bool cb_stub(const char *f, const void *d) { (void)f; (void)d; return true; }

int main(void)
{
  h1 = (struct h1_ghost){0};
  static char d0[] = "/0", d1[] = "/1", d2[] = "/2";
  char *parse_dirs[4] = { d0, d1, d2, NULL };
  h1.nlayers = NLAYERS;
  h1.name = "n";
  h1.main_tail = "n" SUFFIX_NORM;
  h1.suffix_norm = SUFFIX_NORM;
#if NPOST == 0
  char **conf_dirs = NULL;
  int conf_count = 0;
  h1.npost = 1;
  h1.post[0] = SUFFIX_NORM ".d";
#else
  static char p0[] = ".d", p1[] = "/c.d";
  char *conf_dirs_arr[3] = { p0, p1, NULL };
  char **conf_dirs = conf_dirs_arr;
  int conf_count = NPOST;
  h1.npost = NPOST;
  h1.post[0] = p0; h1.post[1] = p1;
#endif
  for (int l = 0; l < NLAYERS; l++) {
    in_main_state[l] = nondet_int();
    __CPROVER_assume(in_main_state[l] >= F_ABSENT && in_main_state[l] <= F_WRONG_OWNER);
    h1_main_state[l] = in_main_state[l];
    in_trav_add[l] = nondet_int();
    __CPROVER_assume(in_trav_add[l] >= 0 && in_trav_add[l] <= 2);
    h1_trav_add[l] = in_trav_add[l];
    in_trav_err[l] = nondet_int();
    __CPROVER_assume(in_trav_err[l] == ECONF_SUCCESS || in_trav_err[l] == ECONF_MISSING_BRACKET ||
                     in_trav_err[l] == ECONF_PARSING_CALLBACK_FAILED || in_trav_err[l] == ECONF_WRONG_OWNER ||
                     in_trav_err[l] == ECONF_NOFILE);
    h1_trav_err[l] = in_trav_err[l];
  }
  h1.cb = nondet_bool() ? cb_stub : NULL;
  h1.cb_data = nondet_ptr();
  static char delim[] = "=", comment[] = "#";
  h1.delim = delim; h1.comment = comment;
  h1.join = nondet_bool(); h1.python = nondet_bool();

  /* ---- reference: DESIGN.md 5.3 ---- */
  int want_main[H1_LAYERS + 1], nwant_main = 0;   /* main files offered, in order */
  int main_layer = -1;
  econf_err want_err = ECONF_SUCCESS;
  bool aborted = false;
  for (int l = NLAYERS - 1; l >= 0 && !aborted && main_layer < 0; l--) {
    want_main[nwant_main++] = l;
    if (h1_main_state[l] == F_OK) main_layer = l;
    else if (h1_main_state[l] != F_ABSENT) {
      aborted = true;
      want_err = h1_main_state[l] == F_PARSE_ERROR ? ECONF_MISSING_BRACKET :
                 h1_main_state[l] == F_REJECTED ? ECONF_PARSING_CALLBACK_FAILED : ECONF_WRONG_OWNER;
    }
  }
  int want_trav = 0, nhist = main_layer >= 0 ? 1 : 0;
  for (int l = 0; l < NLAYERS && !aborted; l++) {
    want_trav++;
    nhist += h1_trav_add[l];
    if (h1_trav_err[l] != ECONF_SUCCESS) { aborted = true; want_err = (econf_err)h1_trav_err[l]; }
  }
  if (!aborted && nhist == 0) want_err = ECONF_NOFILE;

  /* ---- the call ---- */
  econf_file *sentinel_obj = NULL;
  econf_file **kfs = &sentinel_obj;       /* caller-initialised value */
  econf_file **const kfs_init = kfs;
  size_t size = 77;
#ifdef NAME_NULL
  /* C01: "both project and config name NULL must be refused, not crash" */
  econf_err r0 = readConfigHistoryWithCallback(&kfs, &size, parse_dirs, NLAYERS, NULL, SUFFIX_ARG,
                                               delim, comment, h1.join, h1.python,
                                               conf_dirs, conf_count, h1.cb, h1.cb_data);
  __CPROVER_assert(r0 != ECONF_SUCCESS && h1.nmain == 0 && h1.ntrav == 0 && h1.live == 0 && kfs == kfs_init,
                   "C01: a NULL configuration name is refused with an error code and nothing is consulted");
#endif
  econf_err r = readConfigHistoryWithCallback(&kfs, &size, parse_dirs, NLAYERS, "n", SUFFIX_ARG,
                                              delim, comment, h1.join, h1.python,
                                              conf_dirs, conf_count, h1.cb, h1.cb_data);

  /* ---- postcondition ---- */
  __CPROVER_assert(r == want_err, "C01/C13: success, file-not-found when nothing exists, else the code of the first failing file");
  __CPROVER_assert(h1.nmain == nwant_main, "C01: main files are looked for from the highest layer down, stopping at the first hit or error");
  for (int i = 0; i <= H1_LAYERS; i++)
    if (i < nwant_main && i < h1.nmain)
      __CPROVER_assert(h1_main_reads[i] == want_main[i], "C01: main-file lookup order is highest layer first");
  __CPROVER_assert(h1.ntrav == want_trav, "C01: drop-in directories of every layer are traversed unless a file failed");
  for (int i = 0; i <= H1_LAYERS; i++)
    if (i < want_trav && i < h1.ntrav)
      __CPROVER_assert(h1_trav_layer[i] == i, "C01: layers are traversed in ascending priority");
  if (r == ECONF_SUCCESS) {
    __CPROVER_assert(size == (size_t)nhist && kfs != NULL && kfs != kfs_init, "C12: the history has one member per file read");
    if (kfs && kfs != kfs_init && size == (size_t)nhist) {
      __CPROVER_assert(kfs[size] == NULL, "C12: the history is NULL-terminated");
      for (size_t i = 0; i < H1_MAXFILES; i++)
        if (i < size) __CPROVER_assert(kfs[i] != NULL, "C12: every history member is an object");
      if (main_layer >= 0)
        __CPROVER_assert(kfs[0] && kfs[0]->path && kfs[0]->path[1] == '0' + main_layer,
                         "C01: the first member is the main file of the highest layer that has one");
    }
    __CPROVER_assert(h1.live == nhist, "C20: on success exactly the handed-out objects are live");
  } else {
    __CPROVER_assert(kfs == NULL || kfs == kfs_init, "C06/C20: after a failure the history pointer is NULL or untouched");
    __CPROVER_assert(h1.live == 0, "C20: after a failure every object created by the call has been released");
  }
  VACUITY(r == ECONF_SUCCESS && main_layer >= 0 && nhist >= 2, "history with main file and drop-in reachable");
  VACUITY(r == ECONF_SUCCESS && main_layer < 0, "drop-ins without main file reachable");
  VACUITY(r == ECONF_NOFILE, "file-not-found reachable");
  VACUITY(r == ECONF_PARSING_CALLBACK_FAILED && nwant_main >= 1 && want_trav >= 1, "rejected drop-in reachable");
  VACUITY(r == ECONF_MISSING_BRACKET && want_trav == 0, "parse error in main file reachable");
  VACUITY_END();
  return 0;
}
