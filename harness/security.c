/* one of the five restriction setters under contract, from any flag state
 * (dfcc starts all static objects in an arbitrary state). -DFN=1..5 */
#include "common.h"
#include "security.h"
uid_t nondet_uid(void); gid_t nondet_gid(void); mode_t nondet_mode(void);
int main(void)
{
#if FN == 1
  econf_requireOwner(nondet_uid());
#elif FN == 2
  econf_requireGroup(nondet_gid());
#elif FN == 3
  econf_requirePermissions(nondet_mode(), nondet_mode());
#elif FN == 4
  econf_followSymlinks(nondet_bool());
#else
  econf_reset_security_settings();
#endif
  VACUITY_END();
  return 0;
}
