/* one of the five restriction setters under contract, from any flag state
 * (dfcc starts all static objects in an arbitrary state). -DFN=1..5 */
#include "common.h"
#include "security.h"
uid_t nondet_uid(void); gid_t nondet_gid(void); mode_t nondet_mode(void);
int main(void)
{
#if FN == 1
  econf_requireOwner(nondet_uid());
#elif FN == 2
  econf_requireGroup(nondet_gid());
#elif FN == 3
  econf_requirePermissions(nondet_mode(), nondet_mode());
#elif FN == 4
  econf_followSymlinks(nondet_bool());
#elif FN == 5
  econf_reset_security_settings();
#else
  econf_file *kf = NULL;
  if (nondet_bool()) { kf = malloc(sizeof(econf_file)); __CPROVER_assume(kf != NULL); }
#if FN == 6
  char c = econf_comment_tag(kf);
#elif FN == 7
  char c = econf_delimiter_tag(kf);
#elif FN == 8
  econf_set_comment_tag(kf, nondet_char());
#else
  econf_set_delimiter_tag(kf, nondet_char());
#endif
#endif
  VACUITY_END();
  return 0;
}
