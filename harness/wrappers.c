/* The public read entry points of lib/libeconf.c (real code) against the
 * executable contracts of the two internal readers and of the single-file
 * reader (C01 C06 C12 C20).  -DFN selects the entry point:
 *  1 econf_readDirs              2 econf_readDirsWithCallback
 *  3 econf_readDirsHistory       4 econf_readDirsHistoryWithCallback
 *  5 econf_readConfig            6 econf_readConfigWithCallback
 *  7 econf_readFile              8 econf_readFileWithCallback            */
#include "common.h"
#include "readconfig.h"
#include "getfilecontents.h"

/* ---- log of what the internal reader was given ------------------------- */
struct w_ghost {
  int calls;                       /* internal reader calls */
  int is_history;
  char **parse_dirs; int parse_dirs_count;
  const char *name, *suffix, *delim, *comment;
  bool join, python;
  char **conf_dirs; int conf_count;
  bool (*cb)(const char *, const void *); const void *cb_data;
  econf_file *obj;                 /* object the merged reader got */
  char **obj_conf_dirs; int obj_conf_count;
  econf_err ret;                   /* what the internal reader answers */
  econf_file *merged;              /* object the merged reader produces on success */
  econf_file **hist; size_t hist_size;
  /* single-file reader */
  int rf_calls; const char *rf_name; econf_file *rf_obj;
} w;
char w_confdir0[8];                /* copy of the object's first own drop-in dir postfix */
char w_dir0[24], w_dir1[24], w_dir2[24];   /* copies of the layer paths as seen by the reader (separate
                                            * arrays: CBMC mis-addresses multi-dimensional char arrays) */

static void copy_dirs(char **dirs, int n)
{
  char *dst[3] = { w_dir0, w_dir1, w_dir2 };
  for (int i = 0; i < 3; i++)
    if (i < n && dirs && dirs[i]) {
      size_t k = 0;
      for (; k < 23 && dirs[i][k]; k++) dst[i][k] = dirs[i][k];
      dst[i][k] = 0;
    }
}

/* contract of readConfigWithCallback (job rcwc): on success the object is
 * replaced by the merged one; on a failing file the caller's object stays */
econf_err readConfigWithCallback(econf_file **result, const char *config_name, const char *config_suffix,
                                 const char *delim, const char *comment, char **conf_dirs, const int conf_count,
                                 bool (*callback)(const char *filename, const void *data), const void *callback_data)
{
  __CPROVER_assert(result != NULL && *result != NULL, "the merged reader gets an object");
  w.calls++; w.is_history = 0;
  w.obj = *result;
  w.parse_dirs = (*result)->parse_dirs; w.parse_dirs_count = (*result)->parse_dirs_count;
  copy_dirs(w.parse_dirs, w.parse_dirs_count);
  w.obj_conf_dirs = (*result)->conf_dirs; w.obj_conf_count = (*result)->conf_count;
  if (w.obj_conf_count > 0 && w.obj_conf_dirs && w.obj_conf_dirs[0]) {
    size_t k = 0;
    for (; k < 7 && w.obj_conf_dirs[0][k]; k++) w_confdir0[k] = w.obj_conf_dirs[0][k];
    w_confdir0[k] = 0;
  }
  w.join = (*result)->join_same_entries; w.python = (*result)->python_style;
  w.name = config_name; w.suffix = config_suffix; w.delim = delim; w.comment = comment;
  w.conf_dirs = conf_dirs; w.conf_count = conf_count; w.cb = callback; w.cb_data = callback_data;
  if (w.ret == ECONF_SUCCESS) { econf_freeFile(*result); *result = w.merged; }
  return w.ret;
}

econf_err readConfigHistoryWithCallback(econf_file ***key_files, size_t *size, char **parse_dirs,
                                        const int parse_dirs_count, const char *config_name,
                                        const char *config_suffix, const char *delim, const char *comment,
                                        const bool join_same_entries, const bool python_style,
                                        char **conf_dirs, const int conf_count,
                                        bool (*callback)(const char *filename, const void *data),
                                        const void *callback_data)
{
  w.calls++; w.is_history = 1;
  w.parse_dirs = parse_dirs; w.parse_dirs_count = parse_dirs_count;
  copy_dirs(parse_dirs, parse_dirs_count);
  w.join = join_same_entries; w.python = python_style;
  w.name = config_name; w.suffix = config_suffix; w.delim = delim; w.comment = comment;
  w.conf_dirs = conf_dirs; w.conf_count = conf_count; w.cb = callback; w.cb_data = callback_data;
  *size = 0;
  if (w.ret == ECONF_SUCCESS) { *key_files = w.hist; *size = w.hist_size; }
  else *key_files = NULL;
  return w.ret;
}

/* contract of read_file_with_callback (job rfwc): parse failure frees the
 * object and clears the pointer, an early refusal leaves it */
bool w_rf_frees;
econf_err read_file_with_callback(econf_file **key_file, const char *file_name, const char *delim, const char *comment,
                                  bool (*callback)(const char *filename, const void *data), const void *callback_data)
{
  __CPROVER_assert(key_file && *key_file, "the single-file reader gets an object");
  w.rf_calls++; w.rf_name = file_name; w.rf_obj = *key_file;
  w.delim = delim; w.comment = comment; w.cb = callback; w.cb_data = callback_data;
  if (w.ret != ECONF_SUCCESS && w_rf_frees) { econf_freeFile(*key_file); *key_file = NULL; }
  return w.ret;
}

static bool cb_stub(const char *f, const void *d) { (void)f; (void)d; return true; }
econf_err nondet_code(void);

/* text equality modulo repeated slashes */
static bool same_path(const char *got, const char *want)
{
  size_t i = 0, j = 0;
  for (;;) {
    while (got[i] == '/' && got[i + 1] == '/') i++;
    while (want[j] == '/' && want[j + 1] == '/') j++;
    if (got[i] != want[j]) return false;
    if (!got[i]) return true;
    i++; j++;
  }
}

#ifndef DIST
#define DIST "/u"
#endif
#ifndef ETC
#define ETC "/e"
#endif

int main(void)
{
#ifdef V_NAME
  const char *name = V_NAME ? "n" : NULL;
#else
  const char *name = nondet_bool() ? "n" : NULL;
#endif
  const char *suffix = nondet_bool() ? ".s" : NULL;
  static char delim[] = "=", comment[] = "#";
  const void *data = nondet_ptr();
  bool with_cb = nondet_bool();
  w.ret = nondet_code();
  __CPROVER_assume(w.ret >= ECONF_SUCCESS && w.ret <= ECONF_VALUE_CONVERSION_ERROR);
  w.merged = calloc(1, sizeof(econf_file)); __CPROVER_assume(w.merged != NULL);
  w.hist = malloc(2 * sizeof(econf_file *)); __CPROVER_assume(w.hist != NULL);
  w.hist_size = 1;
  w_rf_frees = nondet_bool();
  econf_err r;
  /* the process-wide drop-in directory list (econf_set_conf_dirs) - set or not */
  const bool in_dirs_set = nondet_bool();
  if (in_dirs_set) {
    const char *lst[3] = { "x.d", "y", NULL };
    econf_err e = econf_set_conf_dirs(lst);
    __CPROVER_assert(e == ECONF_SUCCESS, "C01: the process-wide drop-in directory list can be set");
  }
#define PROCESS_WIDE_LIST_FORWARDED \
  (in_dirs_set ? (w.conf_count == 2 && w.conf_dirs && w.conf_dirs[0] && w.conf_dirs[1] && !w.conf_dirs[2] && \
                  same_path(w.conf_dirs[0], "x.d") && same_path(w.conf_dirs[1], "y")) \
               : (w.conf_count == 0))
#if FN == 1 || FN == 2
  const char *dist = nondet_bool() ? DIST : NULL, *etc = nondet_bool() ? ETC : NULL;
  econf_file *res = nondet_ptr();
#if FN == 1
  r = econf_readDirs(&res, dist, etc, name, suffix, delim, comment);
  __CPROVER_assert(w.cb == NULL && w.cb_data == NULL, "C12: the plain entry point passes no callback");
#else
  r = econf_readDirsWithCallback(&res, dist, etc, name, suffix, delim, comment, with_cb ? cb_stub : NULL, data);
  __CPROVER_assert(w.cb == (with_cb ? cb_stub : NULL) && w.cb_data == data, "C06: callback and data forwarded unchanged");
#endif
  __CPROVER_assert(w.calls == 1 && !w.is_history, "C12: the two-directory read is the layered read");
  __CPROVER_assert(w.parse_dirs_count == 2 && same_path(w_dir0, dist ? dist : "") && same_path(w_dir1, etc ? etc : ""),
                   "C12: configured with exactly the two directories, vendor first (NULL = empty)");
  __CPROVER_assert(w.name == name && w.suffix == suffix && w.delim == delim && w.comment == comment,
                   "C12: name, suffix, delimiters and comment set forwarded");
  __CPROVER_assert(!w.join && !w.python && w.obj_conf_count == 0, "C12: no parsing options, no drop-in list of its own");
  __CPROVER_assert(PROCESS_WIDE_LIST_FORWARDED, "C01/C12: the process-wide drop-in directory list is what the reader gets");
  __CPROVER_assert(r == w.ret, "C13: the reader's code is handed on");
  __CPROVER_assert(r == ECONF_SUCCESS ? res == w.merged : res == NULL,
                   "C06/C20: on failure no object is handed back, on success the merged one");
#elif FN == 3 || FN == 4
  const char *dist = nondet_bool() ? DIST : NULL, *etc = nondet_bool() ? ETC : NULL;
  econf_file **hist = nondet_ptr(); size_t size = 77;
#if FN == 3
  r = econf_readDirsHistory(&hist, &size, dist, etc, name, suffix, delim, comment);
  __CPROVER_assert(w.cb == NULL && w.cb_data == NULL, "C12: the plain entry point passes no callback");
#else
  r = econf_readDirsHistoryWithCallback(&hist, &size, dist, etc, name, suffix, delim, comment, with_cb ? cb_stub : NULL, data);
  __CPROVER_assert(w.cb == (with_cb ? cb_stub : NULL) && w.cb_data == data, "C06: callback and data forwarded unchanged");
#endif
  __CPROVER_assert(w.calls == 1 && w.is_history, "C12: the history entry point is the history reader");
  __CPROVER_assert(w.parse_dirs_count == 2 && same_path(w_dir0, dist ? dist : "") && same_path(w_dir1, etc ? etc : ""),
                   "C12: configured with exactly the two directories, vendor first (NULL = empty)");
  __CPROVER_assert(w.name == name && w.suffix == suffix && w.delim == delim && w.comment == comment,
                   "C12: name, suffix, delimiters and comment set forwarded");
  __CPROVER_assert(!w.join && !w.python, "C12: no parsing options");
  __CPROVER_assert(PROCESS_WIDE_LIST_FORWARDED, "C01/C12: the process-wide drop-in directory list is what the reader gets");
  __CPROVER_assert(r == w.ret, "C13: the reader's code is handed on");
  __CPROVER_assert(r == ECONF_SUCCESS ? (hist == w.hist && size == w.hist_size) : hist == NULL,
                   "C06/C20: on failure no history is handed back");
#elif FN == 5 || FN == 6
  /* C01: the three default layers vendor < /run < /etc */
  /* the shape is concrete per job (V_* defines): symbolic string lengths
   * written into the three PATH_MAX buffers do not fit in memory */
  const char *project = V_PROJECT ? "p" : NULL;
  const char *usr_subdir = V_SUBDIR ? DIST : NULL;
  bool own = V_OWN != 0;                /* caller passes an object of its own */
  econf_file *own_obj = NULL;
  if (own) {
    econf_newKeyFile_with_options(&own_obj, "");
    if (V_OWN == 2) own_obj->root_prefix = strdup("/r");
  }
  const char *root = own_obj && own_obj->root_prefix ? "/r" : "";
  econf_file *res = own_obj;
#if FN == 5
  r = econf_readConfig(&res, project, usr_subdir, name, suffix, delim, comment);
  __CPROVER_assert(w.calls == 0 || (w.cb == NULL && w.cb_data == NULL), "C12: the plain entry point passes no callback");
#else
  r = econf_readConfigWithCallback(&res, project, usr_subdir, name, suffix, delim, comment, with_cb ? cb_stub : NULL, data);
  __CPROVER_assert(w.calls == 0 || (w.cb == (with_cb ? cb_stub : NULL) && w.cb_data == data), "C06: callback and data forwarded unchanged");
#endif
  if (name == NULL && project == NULL) {
    __CPROVER_assert(r != ECONF_SUCCESS || w.calls == 1, "C01: neither project nor name: refused (by the reader) - never a crash");
  }
  if (w.calls == 1) {
    /* expected layer paths, modulo repeated slashes */
    char want[3][24];
    const char *sub[3] = { usr_subdir ? usr_subdir : "", "/run", "/etc" };
    const char *proj = name ? project : NULL;     /* drop-in-only mode: the project becomes the name */
    for (int l = 0; l < 3; l++) {
      size_t k = 0;
      for (size_t i = 0; root[i]; i++) want[l][k++] = root[i];
      if (root[0] && proj) want[l][k++] = '/';
      for (size_t i = 0; sub[l][i]; i++) want[l][k++] = sub[l][i];
      if (proj) { want[l][k++] = '/'; for (size_t i = 0; proj[i]; i++) want[l][k++] = proj[i]; }
      want[l][k] = 0;
    }
    __CPROVER_assert(w.parse_dirs_count == 3, "C01: three default layers");
    __CPROVER_assert(same_path(w_dir0, want[0]) && same_path(w_dir1, want[1]) && same_path(w_dir2, want[2]),
                     "C01: layers are <root><usr_subdir>[/<project>] < <root>/run[/<project>] < <root>/etc[/<project>]");
    __CPROVER_assert(w.name == (name ? name : project), "C01: without a config name the project names the drop-in directory");
    __CPROVER_assert(w.suffix == suffix && w.delim == delim && w.comment == comment, "C12: suffix, delimiters, comment set forwarded");
    __CPROVER_assert(PROCESS_WIDE_LIST_FORWARDED, "C01/C12: the process-wide drop-in directory list is what the reader gets");
    if (!name)
      __CPROVER_assert(w.obj_conf_count == 1 && same_path(w_confdir0, ".d"),
                       "C01: drop-in-only mode looks into <project>.d");
  }
  __CPROVER_assert(w.calls <= 1 && (w.calls == 0 || r == w.ret), "C13: the reader's code is handed on");
  if (r != ECONF_SUCCESS)
    __CPROVER_assert(own ? res == own_obj : res == NULL,
                     "C06/C20: on failure the pointer is NULL again, or still the caller's own object");
  else
    __CPROVER_assert(res == w.merged, "C12: on success the merged object is handed back");
#else
  const char *fname = nondet_bool() ? "/f" : NULL;
  econf_file *res = nondet_ptr();
#if FN == 7
  r = econf_readFile(&res, fname, delim, comment);
  __CPROVER_assert(w.cb == NULL && w.cb_data == NULL, "C12: the plain entry point passes no callback");
#else
  r = econf_readFileWithCallback(&res, fname, delim, comment, with_cb ? cb_stub : NULL, data);
  __CPROVER_assert(w.cb == (with_cb ? cb_stub : NULL) && w.cb_data == data, "C06: callback and data forwarded unchanged");
#endif
  __CPROVER_assert(w.rf_calls == 1 && w.rf_name == fname && w.delim == delim && w.comment == comment,
                   "C06/C16: a single file is read through the choke point, with its exact name");
  __CPROVER_assert(r == w.ret, "C13: the reader's code is handed on");
  __CPROVER_assert(r == ECONF_SUCCESS ? res == w.rf_obj : res == NULL, "C13/C20: nothing partial is handed back on failure");
#endif
  VACUITY(r == ECONF_SUCCESS, "success reachable");
  VACUITY(r == ECONF_PARSING_CALLBACK_FAILED, "rejection reachable");
  VACUITY_END();
  return 0;
}
