/* econf_mergeFiles on a pair of entry lists (C03, C04, C10).
 *
 * The SECTION SHAPE of both lists is concrete (-DBG / -DOG: a string of
 * digits, 0 = group-less, 1 = section A, 2 = section B; its length is the
 * number of entries), the KEYS are symbolic (x or y per entry).  One job per
 * pair of shapes: with symbolic shapes the index arithmetic of
 * merge_existing_groups does not fit in memory (DESIGN.md 3).
 *   -DB_KIND / -DO_KIND: 0 = as built by the parser (alloc == length,
 *   file_entry NULL when empty), 1 = as built by econf_newKeyFile (8
 *   pre-initialised slots).
 * The postcondition is the property statement evaluated by a reference
 * (abstract) merge over (section id, key id) pairs. */
#include "common.h"
#include "helpers.h"
#include "defines.h"

#ifndef B_KIND
#define B_KIND 0
#endif
#ifndef O_KIND
#define O_KIND 0
#endif
#define NB (sizeof(BG) - 1)
#define NO (sizeof(OG) - 1)
#define MAXE 4

/* section 1 is "AB", section 2 is "A" (a proper prefix), keys "x" and "xy": comparisons
 * that look at a prefix only are told apart */
static const char *GNAME[3] = { "_none_", "AB", "A" };
static const char *KNAME[2] = { "x", "xy" };
static const char *BVAL[MAXE] = { "b0", "b1", "b2", "b3" };
static const char *OVAL[MAXE] = { "o0", "o1", "o2", "o3" };

/* key ids of both lists: the symbolic part of the input */
unsigned char in_bk[MAXE], in_ok[MAXE];

struct abs_entry { int g, k; const char *val; };

static econf_file *build(const char *shape, size_t n, const unsigned char *kid, const char **vals, int kind, int extra_group)
{
  econf_file *ef = calloc(1, sizeof(econf_file));
  __CPROVER_assume(ef != NULL);
  ef->delimiter = '='; ef->comment = '#';
  size_t alloc = kind == 1 ? (n > 8 ? n : 8) : n;
  if (alloc > 0) {
    ef->file_entry = malloc(alloc * sizeof(struct file_entry));
    __CPROVER_assume(ef->file_entry != NULL);
  }
  ef->alloc_length = alloc;
  ef->length = n;
  /* sections in order of first appearance */
  ef->groups = malloc(4 * sizeof(char *));
  __CPROVER_assume(ef->groups != NULL);
  ef->group_count = 0;
  char *gp[3] = { NULL, NULL, NULL };
  if (kind == 1) { gp[0] = strdup("_none_"); ef->groups[ef->group_count++] = gp[0]; }
  for (size_t i = 0; i < n; i++) {
    int g = shape[i] - '0';
    if (!gp[g]) { gp[g] = strdup(GNAME[g]); ef->groups[ef->group_count++] = gp[g]; }
  }
  if (extra_group && !gp[extra_group]) {
    /* a section header without keys (parsed files list it) */
    gp[extra_group] = strdup(GNAME[extra_group]);
    ef->groups[ef->group_count++] = gp[extra_group];
  }
  ef->groups[ef->group_count] = NULL;
  for (size_t i = 0; i < alloc; i++) {
    struct file_entry *e = &ef->file_entry[i];
    if (i < n) {
      e->group = gp[shape[i] - '0'];
      e->key = strdup(KNAME[kid[i]]);
      e->value = strdup(vals[i]);
      e->line_number = i + 1;
    } else {
      e->group = gp[0];
      e->key = strdup("_none_");
      e->value = strdup("_none_");
      e->line_number = 0;
    }
    e->comment_before_key = NULL;
    e->comment_after_value = NULL;
    e->quotes = false;
  }
  return ef;
}

static int gid_of(const char *g) { return g[0] == '_' ? 0 : g[1] == 'B' ? 1 : 2; }
static int kid_of(const char *k) { return k[1] == 0 ? 0 : 1; }

/* first definition of (g,k) in a concrete-shape list, or -1 */
static int first_def(const char *shape, size_t n, const unsigned char *kid, int g, int k)
{
  for (size_t i = 0; i < n; i++)
    if (shape[i] - '0' == g && kid[i] == k) return (int)i;
  return -1;
}
static bool has_section(const char *shape, size_t n, int g)
{
  for (size_t i = 0; i < n; i++)
    if (shape[i] - '0' == g) return true;
  return false;
}

int main(void)
{
  for (size_t i = 0; i < MAXE; i++) {
    in_bk[i] = nondet_bool();
    in_ok[i] = nondet_bool();
  }
  /* a (section, key) pair is defined at most once per list (what a lookup of
   * a twice-defined key in the MERGED object returns is left unspecified) */
  for (size_t i = 0; i < NB; i++)
    for (size_t j = i + 1; j < NB; j++)
      __CPROVER_assume(!(BG[i] == BG[j] && in_bk[i] == in_bk[j]));
  for (size_t i = 0; i < NO; i++)
    for (size_t j = i + 1; j < NO; j++)
      __CPROVER_assume(!(OG[i] == OG[j] && in_ok[i] == in_ok[j]));

#ifndef B_EXTRA_GROUP
#define B_EXTRA_GROUP 0
#endif
  econf_file *base = build(BG, NB, in_bk, BVAL, B_KIND, B_EXTRA_GROUP);
  econf_file *over = build(OG, NO, in_ok, OVAL, O_KIND, 0);
  /* snapshot of the inputs for the non-destructiveness clause */
  struct file_entry *b_arr = base->file_entry, *o_arr = over->file_entry;
  struct file_entry b_copy[MAXE + 8], o_copy[MAXE + 8];
  for (size_t i = 0; i < base->alloc_length; i++) b_copy[i] = base->file_entry[i];
  for (size_t i = 0; i < over->alloc_length; i++) o_copy[i] = over->file_entry[i];

  VACUITY(1, "inputs built");
  char **b_groups = base->groups, **o_groups = over->groups;
  const int b_gc = base->group_count, o_gc = over->group_count;
  char *b_gcopy[4] = { base->groups[0], base->groups[1], base->groups[2], base->groups[3] };
  char *o_gcopy[4] = { over->groups[0], over->groups[1], over->groups[2], over->groups[3] };
  econf_file *m = NULL;
  econf_err r = econf_mergeFiles(&m, base, over);

  VACUITY(1, "merge returns");
  __CPROVER_assert(r == ECONF_SUCCESS && m != NULL, "C03: merging two objects succeeds");
  if (r == ECONF_SUCCESS && m) {
    /* visible value of every (section, key) */
    size_t expected = 0;
    int pos[3][2];
    for (int g = 0; g < 3; g++)
      for (int k = 0; k < 2; k++) {
        int io = first_def(OG, NO, in_ok, g, k), ib = first_def(BG, NB, in_bk, g, k);
        const char *want = io >= 0 ? OVAL[io] : ib >= 0 ? BVAL[ib] : NULL;
        int found = -1;
        for (size_t i = 0; i < m->length; i++)
          if (found < 0 && gid_of(m->file_entry[i].group) == g && kid_of(m->file_entry[i].key) == k)
            found = (int)i;
        pos[g][k] = found;
        if (want) {
          expected++;
          __CPROVER_assert(found >= 0, "C03: every (section,key) of either input is present");
          if (found >= 0)
            __CPROVER_assert(m->file_entry[found].value != NULL && strcmp(m->file_entry[found].value, want) == 0,
                             "C03: visible value is the override's when it defines the key, else the base's");
        } else {
          __CPROVER_assert(found < 0, "C03: nothing else appears");
        }
      }
    __CPROVER_assert(m->length == expected, "C03: exactly one entry per (section,key)");
    __CPROVER_assert(m->length <= m->alloc_length, "C03: result length within its allocation");
    /* order */
    for (size_t i = 0; i < NB; i++)
      for (size_t j = i + 1; j < NB; j++)
        __CPROVER_assert(pos[BG[i] - '0'][in_bk[i]] < pos[BG[j] - '0'][in_bk[j]],
                         "C03: base keys keep their relative order");
    for (size_t j = 0; j < NO; j++) {
      int g = OG[j] - '0', k = in_ok[j];
      if (first_def(BG, NB, in_bk, g, k) >= 0) continue;     /* not override-only */
      if (has_section(BG, NB, g)) {
        for (size_t i = 0; i < NB; i++)
          if (BG[i] - '0' == g)
            __CPROVER_assert(pos[g][k] > pos[g][in_bk[i]], "C03: override-only keys follow the base keys of their section");
      } else if (g != 0) {
        for (size_t i = 0; i < NB; i++)
          __CPROVER_assert(pos[g][k] > pos[BG[i] - '0'][in_bk[i]], "C03: sections only the override has come last");
      }
    }
    /* group-less first (when both inputs keep their group-less keys first) */
    bool gl_first = true;
    for (size_t i = 1; i < NB; i++) if (BG[i] == '0' && BG[i - 1] != '0') gl_first = false;
    for (size_t i = 1; i < NO; i++) if (OG[i] == '0' && OG[i - 1] != '0') gl_first = false;
    if (gl_first)
      for (size_t i = 1; i < m->length; i++)
        __CPROVER_assert(!(gid_of(m->file_entry[i].group) == 0 && gid_of(m->file_entry[i - 1].group) != 0),
                         "C03: group-less keys stay group-less and first");
    __CPROVER_assert(m->path == NULL, "C17: a merged object has no path");
    /* the result is well-formed: every entry's section is interned in the RESULT's own section list */
    for (size_t i = 0; i < MAXE + MAXE; i++)
      if (i < m->length) {
        bool interned = false;
        for (int g = 0; g < 4; g++)
          if (g < m->group_count && m->groups[g] == m->file_entry[i].group) interned = true;
        __CPROVER_assert(interned, "C03/C11: every merged entry's section belongs to the result's own section list");
      }
  }
  /* both inputs are left unchanged */
  __CPROVER_assert(base->groups == b_groups && base->group_count == b_gc && over->groups == o_groups && over->group_count == o_gc,
                   "C03/C10: the section lists of both inputs are left unchanged");
  for (int g = 0; g < 4; g++) {
    if (g <= b_gc) __CPROVER_assert(base->groups[g] == b_gcopy[g], "C03/C10: base section list entries unchanged");
    if (g <= o_gc) __CPROVER_assert(over->groups[g] == o_gcopy[g], "C03/C10: override section list entries unchanged");
  }
  __CPROVER_assert(base->file_entry == b_arr && over->file_entry == o_arr &&
                   base->length == NB && over->length == NO, "C03/C10: inputs keep their entry arrays");
  for (size_t i = 0; i < base->alloc_length; i++)
    __CPROVER_assert(base->file_entry[i].group == b_copy[i].group && base->file_entry[i].key == b_copy[i].key &&
                     base->file_entry[i].value == b_copy[i].value, "C03/C10: base entries unchanged");
  for (size_t i = 0; i < over->alloc_length; i++)
    __CPROVER_assert(over->file_entry[i].group == o_copy[i].group && over->file_entry[i].key == o_copy[i].key &&
                     over->file_entry[i].value == o_copy[i].value, "C03/C10: override entries unchanged");
  for (size_t i = 0; i < NB; i++)
    __CPROVER_assert(strcmp(base->file_entry[i].value, BVAL[i]) == 0 && kid_of(base->file_entry[i].key) == in_bk[i],
                     "C03/C10: base texts unchanged");
  for (size_t i = 0; i < NO; i++)
    __CPROVER_assert(strcmp(over->file_entry[i].value, OVAL[i]) == 0 && kid_of(over->file_entry[i].key) == in_ok[i],
                     "C03/C10: override texts unchanged");
  VACUITY_END();
  return 0;
}
