/* last_scanned_file (-DPART_LSF) / econf_errLocation (-DPART_ERRLOC) under
 * contract (contracts/errloc.h). */
#include "common.h"
#include "errloc.h"
struct el_ghost el;
int main(void)
{
  el = (struct el_ghost){0};
  sd_n = 0; sd_src0 = sd_src1 = NULL; sd_res0 = sd_res1 = NULL;
  char *fn = nondet_ptr(); uint64_t ln = nondet_size_t();
#ifdef PART_LSF
  last_scanned_file(&fn, &ln);
#else
  el.fn = nondet_ptr(); el.ln = nondet_ptr();
  econf_errLocation(el.fn, el.ln);
#endif
  VACUITY_END();
  return 0;
}
