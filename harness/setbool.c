/* setBoolValueNum under contract: every text of < VALCAP bytes that is one of
 * the six words in any letter case (bounded: the setter hashes the text). */
#include "common.h"
#include "spec.h"
#include "keyfile_getters.h"
int g_bool_class;
const char *g_set_value;
#ifndef VALCAP
#define VALCAP 6
#endif
char in_value_bytes[VALCAP];
int main(void)
{
  econf_file *kf = malloc(sizeof(econf_file)); __CPROVER_assume(kf != NULL);
  size_t num = nondet_size_t();
  kf->alloc_length = nondet_size_t(); kf->length = nondet_size_t();
  __CPROVER_assume(kf->alloc_length >= 1 && kf->alloc_length <= MAX_ENTRIES && kf->length <= kf->alloc_length && num < kf->alloc_length);
  kf->file_entry = mk_entries(kf->alloc_length);
  kf->file_entry[num].value = nondet_bool() ? NULL : mk_string(3);
  g_set_value = kf->file_entry[num].value;
  char *text = mk_string(VALCAP);
  RECORD_STRING(in_value_bytes, text, VALCAP);
  /* the statement is about the six words; the empty text is left unspecified for the setter */
  g_bool_class = text[0] ? spec_bool_class(text) : -1;
  econf_err r = setBoolValueNum(kf, num, text);
  VACUITY(g_bool_class == 1, "true word reachable");
  VACUITY(g_bool_class == 0, "false word reachable");
  VACUITY(r != ECONF_SUCCESS, "refusal reachable");
  VACUITY_END();
  return 0;
}
