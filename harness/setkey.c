/* setKeyValue / initialize under contract (contracts/setkey.h). */
#include "common.h"
#include "setkey.h"
struct sk_ghost sk;
econf_err nondet_code(void);
int main(void)
{
  sk = (struct sk_ghost){0};
  econf_file *kf = malloc(sizeof(econf_file)); __CPROVER_assume(kf != NULL);
  kf->length = nondet_size_t(); kf->alloc_length = nondet_size_t();
  __CPROVER_assume(kf->length <= kf->alloc_length && kf->alloc_length <= MAX_ENTRIES);
#ifdef PART_SETKEYVALUE
  kf->file_entry = nondet_ptr();
  sk.kf = kf; sk.group = nondet_ptr(); sk.key = nondet_ptr(); sk.value = nondet_ptr();
  sk.fk_ret = nondet_code(); __CPROVER_assume(IS_CODE(sk.fk_ret));
  sk.fk_num = nondet_size_t(); __CPROVER_assume(sk.fk_ret != ECONF_SUCCESS || sk.fk_num < kf->length);
  sk.nk_ret = nondet_code(); __CPROVER_assume(IS_CODE(sk.nk_ret));
  sk.fn_ret = nondet_code(); __CPROVER_assume(IS_CODE(sk.fn_ret));
  econf_err r = setKeyValue(sk_store, kf, sk.group, sk.key, sk.value);
  VACUITY(sk.fk_ret == ECONF_SUCCESS && sk.fn_calls == 1, "replace reachable");
  VACUITY(sk.fk_ret == ECONF_NOKEY && sk.fn_calls == 1, "create reachable");
  VACUITY(sk.fk_ret == ECONF_ERROR, "refusal reachable");
#else
  __CPROVER_assume(kf->alloc_length >= 1);
  kf->file_entry = mk_entries(kf->alloc_length);
  size_t num = nondet_size_t(); __CPROVER_assume(num < kf->alloc_length);
  sk.gl_ret = nondet_ptr();
  initialize(kf, num);
#endif
  VACUITY_END();
  return 0;
}
