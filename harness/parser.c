/* Scenario harness for the parser read_file() (C02 C04 C05 C13 C15 C17).
 *
 * A scenario = concrete context lines + ONE line under test whose bytes are
 * symbolic (a buffer of N+1 bytes, text up to the first NUL) + optional
 * concrete follow-up line.  The expected result of the line under test comes
 * from a reference recogniser written from the grammar of DESIGN.md 5.1
 * (spec_line below), the effect on everything else is stated differentially
 * against the same file WITHOUT the line under test.
 *
 * Job parameters (-D):
 *   DELIM, COMMENT      string literals: delimiter set and comment set
 *   NCTX, CTX0..CTX2    concrete context lines
 *   FOLLOW              optional concrete follow-up line
 *   KIND                K_ANY K_COMMENT K_ENTRY K_HEADER K_CONT K_BLANK K_BAD
 *   CTX_ENTRIES         number of entries the context produces
 *   CTX_LAST_ENTRY      1 if the last context line is an entry/continuation
 *   CTX_GROUP           literal: section in effect after the context
 *   CTX_PENDING         literal: pending comment text after the context, or undefined
 *   N                   max. bytes of the line under test
 *   PYTHON, JOIN        option flags of the object
 */
#include "common.h"
#include "readfile.h"

#define K_ANY 1
#define K_COMMENT 2
#define K_ENTRY 3
#define K_HEADER 4
#define K_CONT 5
#define K_BLANK 6
#define K_BAD 7
#define K_JOIN 9     /* JOIN_SAME_ENTRIES: a further definition of the key k */
#define K_PYCONT 8   /* PYTHON_STYLE: an indented line continues the previous value */

#ifndef N
#define N 8
#endif
#ifndef PYTHON
#define PYTHON 0
#endif
#ifndef JOIN
#define JOIN 0
#endif
#ifndef CTX_ENTRIES
#define CTX_ENTRIES 0
#endif
#ifndef CTX_LAST_ENTRY
#define CTX_LAST_ENTRY 0
#endif
#ifndef CTX_GROUP
#define CTX_GROUP "_none_"
#endif

char in_line_bytes[N + 1];

/* ---- file system ghost ------------------------------------------------- */
static void add_line(const char *s, size_t len)
{
  fs.line[fs.nlines] = s;
  fs.len[fs.nlines] = len;
  fs.nlines++;
}
#define ADD_LIT(lit) add_line(lit, sizeof(lit) - 1)

/* ---- character classes of the grammar ---------------------------------- */
static bool is_blank(char c) { return c == ' ' || c == '\t'; }
static bool in_set(char c, const char *set)
{
  for (size_t i = 0; set[i]; i++)
    if (set[i] == c) return true;
  return false;
}
static bool is_print(char c) { return c > 0x20 && c < 0x7f; }
static bool delim_has_blank(void) { return in_set(' ', DELIM) || in_set('\t', DELIM); }
static bool delim_has_nonblank(void)
{
  for (size_t i = 0; DELIM[i]; i++)
    if (!is_blank(DELIM[i])) return true;
  return false;
}
static bool is_nb_delim(char c) { return !is_blank(c) && c != 0 && in_set(c, DELIM); }

/* ---- reference recogniser (DESIGN.md 5.1) ------------------------------ */
enum { L_NONE = 0, L_BLANK, L_COMMENT, L_HEADER, L_ENTRY, L_CONT,
       L_BAD_NOCLOSE, L_BAD_TEXTAFTER, L_BAD_EMPTY, L_BAD_NODELIM };
struct spec {
  int kind;
  size_t ks, ke;       /* key / section name: [ks, ke) */
  bool has_val;        /* a separator is present */
  size_t vs, ve;       /* value [vs, ve) */
  bool quoted;
  bool has_cmt;        /* trailing comment */
  size_t cs, ce;       /* comment text [cs, ce) */
};

static size_t text_len(const char *p)
{
  size_t n = 0;
  while (n < N && p[n]) n++;
  if (n > 0 && p[n - 1] == '\n') n--;
  return n;
}

static bool key_byte(char c)
{
  return is_print(c) && !in_set(c, DELIM) && !in_set(c, COMMENT) && c != '"';
}

/* tail := b* | b+ c ctext, starting at i; fills the comment fields */
static bool spec_tail(const char *p, size_t i, size_t n, struct spec *s)
{
  size_t j = i;
  while (j < n && is_blank(p[j])) j++;
  if (j == n) return true;
  if (j == i || !in_set(p[j], COMMENT)) return false;
  s->has_cmt = true;
  s->cs = j + 1;
  s->ce = n;
  for (size_t k = j + 1; k < n; k++)
    if (in_set(p[k], COMMENT) || p[k] == '"' || !(is_print(p[k]) || is_blank(p[k]))) return false;
  return true;
}

static void spec_line(const char *p, struct spec *s)
{
  size_t n = text_len(p);
  size_t i = 0;
  *s = (struct spec){0};
  while (i < n && is_blank(p[i])) i++;
  if (i == n) { s->kind = L_BLANK; return; }
  /* comment := b* c text, text = ANY bytes */
  if (in_set(p[i], COMMENT)) { s->kind = L_COMMENT; s->cs = i + 1; s->ce = n; return; }
  if (p[i] == '[') {
    /* header := b* '[' name ']' b* [b+ c ctext]   (ctext: no comment byte, no quote) */
    size_t j = i + 1, close = n, hn = n;
    for (size_t k = i + 1; k < n; k++)
      if (p[k] == '"' || !(is_print(p[k]) || is_blank(p[k]))) return;
    for (size_t k = i + 1; k < n; k++)
      if (in_set(p[k], COMMENT)) {
        if (hn != n) return;              /* two comment bytes: unspecified */
        if (!is_blank(p[k - 1])) return;  /* comment byte glued to the text: unspecified */
        hn = k;
      }
    while (hn > i + 1 && is_blank(p[hn - 1])) hn--;   /* header text is [i, hn) */
    for (size_t k = i + 1; k < hn; k++)
      if (p[k] == ']' && close == n) close = k;
    if (close == n) { s->kind = L_BAD_NOCLOSE; return; }
    for (size_t k = close + 1; k < hn; k++)
      if (p[k] == ']') return;          /* more than one ']' : leave unspecified */
    for (size_t k = close + 1; k < hn; k++)
      if (!is_blank(p[k])) { s->kind = L_BAD_TEXTAFTER; return; }
    if (close == i + 1) { s->kind = L_BAD_EMPTY; return; }
    /* blanks directly inside the brackets: whether they belong to the name
     * is left unspecified */
    if (is_blank(p[j]) || is_blank(p[close - 1])) return;
    s->kind = L_HEADER; s->ks = j; s->ke = close;
    return;
  }
  /* continuation := b+ text, text without any byte of D, Cm or '"' */
  bool any_delim = false, any_special = false;
  for (size_t k = i; k < n; k++) {
    if (in_set(p[k], DELIM)) any_delim = true;   /* incl. blanks when the set has them */
    if (in_set(p[k], COMMENT) || p[k] == '"' || !(is_print(p[k]) || is_blank(p[k]))) any_special = true;
  }
  if (DELIM[0] && i > 0 && !any_delim && !any_special && !(delim_has_blank() && delim_has_nonblank())) {
    size_t e = n;
    while (e > i && is_blank(p[e - 1])) e--;
    s->kind = L_CONT; s->vs = i; s->ve = e;
    return;
  }
  /* PYTHON_STYLE: an indented line directly after an entry is a continuation (kind K_PYCONT) */
  if (PYTHON && i > 0 && CTX_LAST_ENTRY) return;
  /* entry := b* key sep value tail */
  size_t ks = i;
  if (!key_byte(p[i])) return;
  while (i < n && key_byte(p[i])) i++;
  size_t ke = i;
  s->ks = ks; s->ke = ke;
  if (DELIM[0] == 0) {
    /* keys only */
    if (!spec_tail(p, i, n, s)) return;
    if (s->has_cmt) return; /* trailing comment in keys-only mode: unspecified */
    s->kind = L_ENTRY;
    return;
  }
  size_t b = 0;
  bool sep_has_delim = false;
  while (i < n && is_blank(p[i])) { if (in_set(p[i], DELIM)) sep_has_delim = true; i++; b++; }
  if (i < n && is_nb_delim(p[i])) {
    i++;
    while (i < n && is_blank(p[i])) i++;
    s->has_val = true;
  } else if (b > 0 && delim_has_blank()) {
    /* a blank run that contains no byte of the delimiter set (a tab under
     * DELIM " "): unspecified */
    if (!sep_has_delim) return;
    s->has_val = (i < n);
    if (i == n) {                       /* key + trailing blanks: no value (a delimiter byte was seen: no continuation) */
      s->kind = L_ENTRY;
      return;
    }
  } else {
    /* key followed by something that is no delimiter */
    if (i == n) {
      if (CTX_LAST_ENTRY) return;       /* directly after an entry: a continuation by design */
      /* a key and blanks with nothing behind them: without blank delimiters no delimiter is there (C13) */
      if (delim_has_blank()) { s->kind = L_ENTRY; return; }
      /* a bare key, or a key and ONE blank, with nothing behind it is taken as a key without value
       * by the code (the blank is overwritten by the key's terminator): left unspecified */
      if (b > 1) s->kind = L_BAD_NODELIM;
      return;
    }
    if (!delim_has_blank() && b > 0 && key_byte(p[i])) s->kind = L_BAD_NODELIM;
    return;
  }
  /* value */
  if (i < n && p[i] == '"') {
    size_t q = i + 1;
    while (q < n && p[q] != '"') {
      if (!(is_print(p[q]) || is_blank(p[q]))) return;
      q++;
    }
    if (q == n) return;                 /* unbalanced quote: unspecified */
    s->quoted = true; s->vs = i + 1; s->ve = q;
    if (!spec_tail(p, q + 1, n, s)) { s->kind = L_NONE; return; }
    if (PYTHON && s->has_cmt) { s->kind = L_NONE; return; }   /* quoted value + comment in python style: unspecified */
    s->kind = L_ENTRY;
    return;
  }
  /* bare: up to the end or up to b+ c */
  size_t vs = i, ve = i;
  if (delim_has_blank() && i < n && in_set(p[i], DELIM)) return; /* value starts with a delimiter byte: unspecified */
  while (i < n) {
    if ((!PYTHON && in_set(p[i], COMMENT)) || p[i] == '"') break;
    if (!(is_print(p[i]) || is_blank(p[i]))) return;
    if (!is_blank(p[i])) ve = i + 1;
    i++;
  }
  if (i < n) {
    /* stopped at a comment byte or a quote */
    if (p[i] == '"') return;
    if (i == ve && ve > vs) return;     /* comment byte glued to the value: unspecified */
    if (ve == vs && i == vs && !is_blank(p[i - 1])) return;
  }
  s->vs = vs; s->ve = ve;
  if (!spec_tail(p, ve, n, s)) { s->kind = L_NONE; return; }
  s->kind = L_ENTRY;
}

/* ---- the line under test ----------------------------------------------- */
static char *mk_line(struct spec *s)
{
  char *p = malloc(N + 1);
  __CPROVER_assume(p != NULL);
  p[N] = 0;
  __CPROVER_assume(p[0] != 0);
  for (size_t i = 0; i < N; i++)
    if (p[i] == '\n') __CPROVER_assume(p[i + 1] == 0);
  spec_line(p, s);
#if KIND == K_COMMENT
  __CPROVER_assume(s->kind == L_COMMENT);
#elif KIND == K_ENTRY
  __CPROVER_assume(s->kind == L_ENTRY);
#elif KIND == K_HEADER
  __CPROVER_assume(s->kind == L_HEADER);
#elif KIND == K_CONT
  __CPROVER_assume(s->kind == L_CONT);
#elif KIND == K_BLANK
  __CPROVER_assume(s->kind == L_BLANK);
#elif KIND == K_BAD
  __CPROVER_assume(s->kind >= L_BAD_NOCLOSE);
#elif KIND == K_JOIN
  /* a further plain definition of the key "k" of the context */
  __CPROVER_assume(s->kind == L_ENTRY && s->ke == s->ks + 1 && p[s->ks] == 'k' && s->has_val && !s->quoted && !s->has_cmt);
#elif KIND == K_PYCONT
  /* b+ text: indented, first non-blank byte neither a comment character nor
   * '[' (an indented comment line is a comment, C05; an indented header is
   * left unspecified); printable text, anything else allowed: delimiters,
   * comment characters, quotes */
  {
    size_t n = text_len(p), i = 0;
    while (i < n && is_blank(p[i])) i++;
    __CPROVER_assume(i > 0 && i < n && !in_set(p[i], COMMENT) && p[i] != '[');
    for (size_t k = i; k < n; k++) __CPROVER_assume(is_print(p[k]) || is_blank(p[k]));
    s->vs = i; s->ve = n;
  }
#endif
  for (size_t i = 0; i <= N; i++) in_line_bytes[i] = p[i];
  return p;
}

static econf_file *new_object(void)
{
  econf_file *ef = calloc(1, sizeof(econf_file));
  __CPROVER_assume(ef != NULL);
  ef->python_style = PYTHON;
  ef->join_same_entries = JOIN;
  ef->comment = COMMENT[0];   /* set by read_file_with_callback before the parser runs */
  return ef;
}

static econf_err parse(econf_file *ef, const char *test_line)
{
  fs.nlines = 0; fs.next = 0;
#if NCTX >= 1
  ADD_LIT(CTX0);
#endif
#if NCTX >= 2
  ADD_LIT(CTX1);
#endif
#if NCTX >= 3
  ADD_LIT(CTX2);
#endif
  if (test_line) add_line(test_line, N);
#ifdef FOLLOW
  ADD_LIT(FOLLOW);
#endif
  return checked_read_file(ef, "/f", DELIM, COMMENT);
}

/* ---- comparisons -------------------------------------------------------- */
static bool same_str(const char *a, const char *b)
{
  if (a == NULL || b == NULL) return a == b;
  return strcmp(a, b) == 0;
}
/* stored string equals the slice [s, e) of the line */
static bool eq_slice(const char *stored, const char *p, size_t s, size_t e)
{
  if (stored == NULL) return false;
  size_t k = 0;
  for (; s + k < e; k++)
    if (stored[k] != p[s + k]) return false;
  return stored[k] == 0;
}
/* an empty value may be stored as "" or as an absent value */
static bool eq_value(const char *stored, const char *p, size_t s, size_t e)
{
  if (s == e) return stored == NULL || stored[0] == 0;
  return eq_slice(stored, p, s, e);
}
static bool same_entry_text(const struct file_entry *x, const struct file_entry *y)
{
  return same_str(x->key, y->key) && same_str(x->value, y->value) && same_str(x->group, y->group);
}

int main(void)
{
  fs = (struct fs_ghost){0};
  struct spec s;
  char *line = mk_line(&s);
  econf_file *a = new_object();
  econf_err ra = parse(a, line);

#if KIND != K_ANY
  /* the same file WITHOUT the line under test */
  econf_file *b = new_object();
  econf_err rb = parse(b, NULL);
  __CPROVER_assert(rb == ECONF_SUCCESS, "scenario: the context itself parses");
  const size_t idx = CTX_ENTRIES;   /* position a new entry of the line under test gets */
#endif

#if KIND == K_COMMENT || KIND == K_BLANK
  /* C05 / C02: comment lines and blank lines are inert */
  __CPROVER_assert(ra == ECONF_SUCCESS, "C05: a comment/blank line is no parse error");
  if (ra == ECONF_SUCCESS) {
    __CPROVER_assert(a->length == b->length, "C05: a comment/blank line adds or removes no key");
    __CPROVER_assert(a->group_count == b->group_count, "C05: a comment/blank line adds or removes no section");
    for (size_t i = 0; i < b->length && i < a->length; i++)
      __CPROVER_assert(same_entry_text(&a->file_entry[i], &b->file_entry[i]),
                       "C05: sections, keys and values unchanged by a comment/blank line");
#if KIND == K_COMMENT && defined(FOLLOW)
    /* C17: the comment line is attached to the next entry, after the comment lines already pending */
    if (a->length == b->length && a->length >= 1) {
      const char *cb = a->file_entry[a->length - 1].comment_before_key;
      __CPROVER_assert(cb != NULL, "C17: the text of a comment line directly preceding an entry is kept");
      if (cb) {
        size_t k = 0;
        bool ok = true;
#ifdef CTX_PENDING
        const char *pend = CTX_PENDING;
        for (; pend[k]; k++) if (cb[k] != pend[k]) ok = false;
        if (ok && cb[k] != '\n') ok = false;
        k++;
#endif
        size_t m = 0;
        for (; ok && s.cs + m < s.ce; m++) if (cb[k + m] != line[s.cs + m]) ok = false;
        if (ok) ok = cb[k + m] == 0;
        __CPROVER_assert(ok, "C17: comment lines directly preceding an entry are reported in order, each with the text after its comment character");
      }
    }
#endif
  }
#endif

#if KIND == K_ENTRY
  __CPROVER_assert(ra == ECONF_SUCCESS, "C02: a conventional entry line parses");
  if (ra == ECONF_SUCCESS) {
    __CPROVER_assert(a->length == b->length + 1, "C02: the entry line adds exactly one key");
    __CPROVER_assert(a->group_count == b->group_count ||
                     (b->group_count == 0 && a->group_count == 1), "C02: an entry line opens no section");
    if (a->length == b->length + 1) {
      const struct file_entry *e = &a->file_entry[idx];
      __CPROVER_assert(eq_slice(e->key, line, s.ks, s.ke), "C02: key is exactly the key text");
      __CPROVER_assert(s.has_val ? eq_value(e->value, line, s.vs, s.ve) : (e->value == NULL || e->value[0] == 0),
                       "C02: value is the value text with outer blanks and one pair of quotes removed");
      __CPROVER_assert(e->quotes == s.quoted, "C02/C07: quote flag set iff the value was quoted");
      __CPROVER_assert(same_str(e->group, CTX_GROUP), "C02: key belongs to the section in effect");
      __CPROVER_assert(e->line_number == NCTX + 1, "C17: entry reports its 1-based line number");
      __CPROVER_assert(s.has_cmt ? eq_slice(e->comment_after_value, line, s.cs, s.ce)
                                 : e->comment_after_value == NULL, "C17: trailing comment text");
#ifdef CTX_PENDING
      __CPROVER_assert(same_str(e->comment_before_key, CTX_PENDING), "C17: preceding comment lines attached");
#else
      __CPROVER_assert(e->comment_before_key == NULL, "C17: no preceding comment");
#endif
      for (size_t i = 0; i < b->length; i++) {
        size_t ia = i < idx ? i : i + 1;
        __CPROVER_assert(same_entry_text(&a->file_entry[ia], &b->file_entry[i]),
                         "C02: the other entries are unchanged");
        __CPROVER_assert(a->file_entry[ia].line_number == b->file_entry[i].line_number + (i < idx ? 0 : 1),
                         "C17: line numbers of the other entries");
      }
    }
  }
#endif

#if KIND == K_HEADER
  __CPROVER_assert(ra == ECONF_SUCCESS, "C02: a conventional section header parses");
  if (ra == ECONF_SUCCESS) {
    __CPROVER_assert(a->length == b->length, "C02: a header adds no key");
    bool found = false;
    for (int g = 0; g < a->group_count; g++)
      if (eq_slice(a->groups[g], line, s.ks, s.ke)) found = true;
    __CPROVER_assert(found, "C02: the section name (blank-trimmed) is recorded");
    for (size_t i = 0; i < b->length && i < a->length; i++) {
      __CPROVER_assert(same_str(a->file_entry[i].key, b->file_entry[i].key) &&
                       same_str(a->file_entry[i].value, b->file_entry[i].value), "C02: keys and values unchanged by a header");
      if (i < idx)
        __CPROVER_assert(same_str(a->file_entry[i].group, b->file_entry[i].group), "C02: earlier keys keep their section");
      else
        __CPROVER_assert(eq_slice(a->file_entry[i].group, line, s.ks, s.ke), "C02: later keys belong to the new section");
    }
  }
#endif

#if KIND == K_CONT
  /* the context ends with an entry; the line under test continues it */
  __CPROVER_assert(ra == ECONF_SUCCESS, "C02: a continuation line parses");
  if (ra == ECONF_SUCCESS) {
    __CPROVER_assert(a->length == b->length, "C02: a continuation line adds no key");
    if (a->length == b->length && idx >= 1) {
      const char *va = a->file_entry[idx - 1].value, *vb = b->file_entry[idx - 1].value;
      __CPROVER_assert(va != NULL && vb != NULL, "C02: continued value present");
      if (va && vb) {
        size_t k = 0;
        while (vb[k] && va[k] == vb[k]) k++;
        bool ok = vb[k] == 0 && va[k] == '\n';
        size_t t = k + 1;
        if (ok) { while (is_blank(va[t])) t++; }
        /* the appended text, modulo outer blanks, is the text of the line */
        if (ok) {
          size_t m = 0;
          for (; s.vs + m < s.ve; m++)
            if (va[t + m] != line[s.vs + m]) ok = false;
          if (ok) { size_t r = t + m; while (is_blank(va[r])) r++; ok = va[r] == 0; }
        }
        __CPROVER_assert(ok, "C02: continuation appends a newline and the line's text to the previous value");
      }
      __CPROVER_assert(same_str(a->file_entry[idx - 1].key, b->file_entry[idx - 1].key), "C02: key of the continued entry unchanged");
      __CPROVER_assert(a->file_entry[idx - 1].line_number == NCTX + 1, "C17: a continued entry reports the line it ends on");
    }
  }
#endif

#if KIND == K_JOIN
  __CPROVER_assert(ra == ECONF_SUCCESS, "C15: a repeated key parses");
  if (ra == ECONF_SUCCESS && b->length >= 1 && a->length >= 1) {
    const char *va = a->file_entry[0].value, *vb = b->file_entry[0].value;
    __CPROVER_assert(same_str(a->file_entry[0].key, "k") && va != NULL, "C15: the first definition of the key carries the joined value");
    if (va && vb) {
      bool ok;
      if (s.vs == s.ve) ok = va[0] == 0;      /* an empty definition resets the list */
      else {
        size_t k = 0;
        while (vb[k] && va[k] == vb[k]) k++;
        ok = vb[k] == 0 && va[k] == '\n';
        if (ok) {
          size_t m = 0;
          for (; s.vs + m < s.ve; m++)
            if (va[k + 1 + m] != line[s.vs + m]) ok = false;
          if (ok) ok = va[k + 1 + m] == 0;
        }
      }
      __CPROVER_assert(ok, "C15: JOIN_SAME_ENTRIES: the value is the concatenation, in file order, of the lines of all "
                           "definitions since the last empty one");
    }
  }
#endif

#if KIND == K_PYCONT
  __CPROVER_assert(ra == ECONF_SUCCESS, "C15: python style: an indented line parses");
  if (ra == ECONF_SUCCESS) {
    __CPROVER_assert(a->length == b->length, "C15: python style: an indented line adds no key even if it contains the delimiter");
    if (a->length == b->length && idx >= 1) {
      const char *va = a->file_entry[idx - 1].value, *vb = b->file_entry[idx - 1].value;
      __CPROVER_assert(va != NULL && vb != NULL, "C15: continued value present");
      if (va && vb) {
        size_t k = 0;
        while (vb[k] && va[k] == vb[k]) k++;
        bool ok = vb[k] == 0 && va[k] == '\n';
        if (ok) {
          size_t m = 0;
          for (; s.vs + m < s.ve; m++)
            if (va[k + 1 + m] != line[s.vs + m]) ok = false;
          if (ok) ok = va[k + 1 + m] == 0;
        }
        __CPROVER_assert(ok, "C15: python style: the line continues the previous value with its indentation removed; "
                             "comment characters stay part of the value");
      }
    }
  }
#endif

#if KIND == K_BAD
  /* C13: the specific code, the right line, the right file, nothing partial */
  econf_err want = s.kind == L_BAD_NOCLOSE ? ECONF_MISSING_BRACKET :
                   s.kind == L_BAD_TEXTAFTER ? ECONF_TEXT_AFTER_SECTION :
                   s.kind == L_BAD_EMPTY ? ECONF_EMPTY_SECTION_NAME : ECONF_MISSING_DELIMITER;
#if CTX_LAST_ENTRY
  /* directly after an entry a delimiter-less line is a continuation by design */
  if (s.kind != L_BAD_NODELIM)
#endif
  {
    __CPROVER_assert(ra == want, "C13: the specific error code for the malformed line");
    char *fn = NULL; uint64_t nr = 0;
    last_scanned_file(&fn, &nr);
    __CPROVER_assert(nr == NCTX + 1, "C13: error location is the 1-based number of the malformed line");
    __CPROVER_assert(fn != NULL && strcmp(fn, "/f") == 0, "C13: error location names the file");
  }
#endif

#if KIND != K_BAD
  VACUITY(ra == ECONF_SUCCESS, "successful parse reachable");
#endif
#if KIND == K_ENTRY && !(PYTHON && CTX_LAST_ENTRY)
  VACUITY(s.ks > 0, "indented key reachable");
#ifndef KEYS_ONLY
  VACUITY(s.quoted, "quoted value reachable");
#if !PYTHON
  VACUITY(s.has_cmt, "trailing comment reachable");
#endif
#endif
#endif
#if KIND == K_BAD
  VACUITY(s.kind == L_BAD_NOCLOSE, "missing bracket reachable");
  VACUITY(s.kind == L_BAD_TEXTAFTER, "text after section reachable");
  VACUITY(s.kind == L_BAD_EMPTY, "empty section reachable");
#endif
  VACUITY_END();
  return 0;
}
