/* A macro-generated public wrapper under contract (contracts/getvalue.h).
 * PART_GET: econf_get<T>Value   PART_DEF: econf_get<T>ValueDef */
#include "common.h"
#include "getvalue.h"
struct gv_ghost gv;
#ifdef PART_DEF
CT gv_out;
#endif
econf_err nondet_code(void);
#ifdef IS_STRING
#define NONDET_CT() ((char *)nondet_ptr())
#else
CT nondet_ct(void);
#define NONDET_CT() nondet_ct()
#endif

int main(void)
{
  gv = (struct gv_ghost){0};
  econf_file *kf = NULL;
  if (nondet_bool()) {
    kf = malloc(sizeof(econf_file)); __CPROVER_assume(kf != NULL);
    kf->length = nondet_size_t(); kf->alloc_length = nondet_size_t();
    kf->file_entry = nondet_ptr();
  }
  const char *group = nondet_bool() ? NULL : mk_string(1 << 16);
#ifdef PART_SET
  const char *key = nondet_bool() ? NULL : mk_string(4);   /* the setter takes strlen(key) */
#else
  const char *key = nondet_bool() ? NULL : mk_string(1 << 16);
#endif
  CT out = NONDET_CT();
  CT *result = nondet_bool() ? NULL : &out;
  gv.fk_ret = nondet_code(); __CPROVER_assume(IS_CODE(gv.fk_ret));
  gv.fk_num = nondet_size_t();
  if (kf) __CPROVER_assume(gv.fk_ret != ECONF_SUCCESS || gv.fk_num < kf->length);
  gv.gn_ret = nondet_code(); __CPROVER_assume(IS_CODE(gv.gn_ret));
  gv.gv_ret = nondet_code(); __CPROVER_assume(IS_CODE(gv.gv_ret));
#ifdef PART_GET
  gv.kf = kf; gv.group = group; gv.key = key; gv.result = result;
  econf_err r = GETVAL(kf, group, key, result);
  VACUITY(r == ECONF_SUCCESS && gv.gn_calls == 1, "converted value reachable");
  VACUITY(kf != NULL && gv.fk_ret == ECONF_NOKEY, "missing key reachable");
  VACUITY(kf == NULL, "missing object reachable");
  VACUITY(group != NULL && gv.sb_calls == 1, "section name given reachable");
#endif
#ifdef PART_SET
  gv.kf = kf; gv.group = group; gv.key = key;
  gv.skv_ret = nondet_code(); __CPROVER_assume(IS_CODE(gv.skv_ret));
#ifdef IS_TEXT
  const char *v = nondet_bool() ? NULL : mk_string(8);
  econf_err r = SETVAL(kf, group, key, v);
  if (gv.skv_calls == 1) __CPROVER_assert(gv.skv_value == (const void *)v, "C11: the caller's text is what is stored");
#else
  CT v = NONDET_CT();
  econf_err r = SETVAL(kf, group, key, v);
#endif
  VACUITY(r == ECONF_SUCCESS && gv.skv_calls == 1, "store reachable");
  VACUITY(key != NULL && key[0] == 0 && r != ECONF_SUCCESS, "empty key refused reachable");
#endif
#ifdef PART_DEF
#ifdef IS_STRING
  CT def = nondet_bool() ? NULL : mk_string(1 << 16);
#else
  CT def = NONDET_CT();
#endif
  const CT before = out;
  __CPROVER_assume(result != NULL);
  econf_err r = GETDEF(kf, group, key, result, def);
  /* C11: "a defaulted get returns the default exactly when the key is absent" */
  if (kf == NULL) __CPROVER_assert(r != ECONF_SUCCESS && gv.gv_calls == 0, "C11: a call without object is refused");
  else {
    __CPROVER_assert(gv.gv_calls == 1 && gv.kf == kf && gv.group == group && gv.key == key && gv.result == (void *)result,
                     "C11: the defaulted getter asks the plain getter with the caller's arguments");
    __CPROVER_assert(r == gv.gv_ret, "C11: ... and hands on its code");
    if (gv.gv_ret != ECONF_NOKEY)
      __CPROVER_assert(out == gv_out, "C11: ... and ONLY then: after any other outcome the result is what the plain getter left");
#ifndef IS_STRING
    if (gv.gv_ret == ECONF_NOKEY)
    {
      bool same = true;
      for (size_t b = 0; b < sizeof(CT); b++)
        if (((unsigned char *)&out)[b] != ((unsigned char *)&def)[b]) same = false;
      __CPROVER_assert(same, "C11: the default is returned (bit for bit) when the key is absent");
    }
#else
    if (gv.gv_ret == ECONF_NOKEY)
      __CPROVER_assert(def ? (out != NULL && out != def) : out == NULL,
                       "C11: a copy of the default text (NULL for a NULL default) is returned when the key is absent");
#endif
  }
  VACUITY(kf != NULL && gv.gv_ret == ECONF_NOKEY, "absent key reachable");
  VACUITY(kf != NULL && gv.gv_ret == ECONF_SUCCESS, "present key reachable");
#endif
  VACUITY_END();
  return 0;
}
