/* econf_readConfig under contract (contracts/entry_cfg.h). */
#include "common.h"
#include "entry_cfg.h"
struct ec_ghost ec;
econf_err nondet_code(void);
econf_file *nondet_obj(void);
int main(void)
{
  ec = (struct ec_ghost){0};    /* dfcc starts every static object in an arbitrary state */
  econf_file *slot = nondet_obj();
  ec.key_file = &slot;
  ec.project = nondet_ptr(); ec.usr_subdir = nondet_ptr(); ec.name = nondet_ptr(); ec.suffix = nondet_ptr();
  ec.delim = nondet_ptr(); ec.comment = nondet_ptr();
  ec.ret = nondet_code(); __CPROVER_assume(IS_CODE(ec.ret));
  ec.result = nondet_obj();
  econf_err r = econf_readConfig(&slot, ec.project, ec.usr_subdir, ec.name, ec.suffix, ec.delim, ec.comment);
  VACUITY(r == ECONF_SUCCESS, "success reachable");
  VACUITY(r == ECONF_NOFILE, "failure reachable");
  VACUITY_END();
  return 0;
}
