/* merge_econf_files (real code, lib/mergefiles.c) over a history of K files
 * (C01 C12 C20): masking by base name and the left-to-right fold.
 * -DK=1..4.  Symbolic: whether the first member is the main file, the layer
 * (ascending) and the base name (a, ab or b: one a proper prefix of another)
 * of every drop-in. */
#include "common.h"
#include "h3.h"
#include "mergefiles.h"

#ifndef K
#define K 3
#endif
bool in_first_is_main;
int in_layer[H3_MAX], in_name[H3_MAX];

static econf_file *mk_file(int layer, int name, bool is_main)
{
  econf_file *ef = calloc(1, sizeof(econf_file));
  __CPROVER_assume(ef != NULL);
  ef->on_merge_delete = 1;
  char *p = malloc(12);
  __CPROVER_assume(p != NULL);
  if (is_main) { char t[] = "/0/n.s"; t[1] = (char)('0' + layer); for (int i = 0; i < 7; i++) p[i] = t[i]; }
  else {
    char t[] = "/0/n.s.d/a\0"; t[1] = (char)('0' + layer);
    if (name == 1) t[10] = 'b'; else if (name == 2) t[9] = 'b';
    for (int i = 0; i < 12; i++) p[i] = t[i];
  }
  ef->path = p;
  h3.live++;
  return ef;
}

int main(void)
{
  h3 = (struct h3_ghost){0};
  in_first_is_main = nondet_bool();
  econf_file *files[H3_MAX + 1];
  for (int i = 0; i < K; i++) {
    in_layer[i] = nondet_int(); in_name[i] = nondet_int();
    __CPROVER_assume(in_layer[i] >= 0 && in_layer[i] <= 2);
    __CPROVER_assume(in_name[i] >= 0 && in_name[i] <= 2);   /* a < ab < b */
    /* processing order: drop-ins by ascending layer, inside a layer by name, no name twice in a layer */
    if (i > (in_first_is_main ? 1 : 0))
      __CPROVER_assume(in_layer[i - 1] < in_layer[i] || (in_layer[i - 1] == in_layer[i] && in_name[i - 1] < in_name[i]));
    files[i] = mk_file(in_layer[i], in_name[i], i == 0 && in_first_is_main);
  }
  files[K] = NULL;
  econf_file *orig[H3_MAX];
  for (int i = 0; i < K; i++) orig[i] = files[i];

  /* reference (DESIGN.md 5.3): a drop-in is masked iff a LATER member (higher
   * layer) is a drop-in with the same base name; the main file is never masked */
  bool masked[H3_MAX];
  int nun = 0, un[H3_MAX];
  for (int i = 0; i < K; i++) {
    masked[i] = false;
    if (!(i == 0 && in_first_is_main))
      for (int j = i + 1; j < K; j++)
        if (in_name[j] == in_name[i]) masked[i] = true;
    if (!masked[i]) un[nun++] = i;
  }

#ifdef KF_FIRST_DROPIN_MASKED
  /* known finding (known_findings.json): without a main file the first
   * drop-in is used as the base even if a later one masks it */
  __CPROVER_assume(!masked[0]);
#endif
  econf_file *result = NULL;
  econf_err r = merge_econf_files(files, &result);

  __CPROVER_assert(r == ECONF_SUCCESS && result != NULL, "C01: a non-empty history merges");
  /* the fold: acc = first unmasked; then every further unmasked member, left to right */
  __CPROVER_assert(h3.nmerge == nun - 1, "C01/C12: every unmasked file is merged exactly once, masked ones never");
  for (int m = 0; m < H3_MAX; m++)
    if (m < h3.nmerge && m + 1 < nun) {
      __CPROVER_assert(h3_log_over[m] == orig[un[m + 1]], "C01/C12: files override in processing order, skipping masked drop-ins");
      __CPROVER_assert(h3_log_acc[m] == (m == 0 ? orig[un[0]] : h3_log_res[m - 1]),
                       "C01/C12: each merge takes the result so far as its base");
    }
  if (nun >= 1 && h3.nmerge == nun - 1)
    __CPROVER_assert(result == (nun == 1 ? orig[un[0]] : h3_log_res[nun - 2]), "C12: the last merge result is handed back");
  __CPROVER_assert(h3.live == 1, "C20: every intermediate and every input marked on_merge_delete is released exactly once");
#if K >= 3
  VACUITY(nun < K, "masked drop-in reachable");
#endif
#if !defined(KF_FIRST_DROPIN_MASKED) && K >= 2
  VACUITY(masked[0], "first member masked reachable");
#endif
#if K <= 3 && K > 1
  VACUITY(nun == K, "nothing masked reachable");
#endif
  VACUITY_END();
  return 0;
}
