/* readConfigHistoryWithCallback + traverse_conf_dirs + check_conf_dir (real
 * code) over the ghost file system of stubs/layered.c (C01 C06 C13 C20).
 *
 * -DNLAYERS=1..3  -DNPOST=0..2 (0 = default "<suffix>.d")  -DSUFFIX_ARG=<literal or NULL>
 * -DSUFFIX_NORM=<literal>: the normalised suffix the statement prescribes
 * Every file state and every directory content (names of <= 4 bytes over
 * {a,b,.,s,x}, in byte order) is symbolic. */
#include "common.h"
#include "layered.h"
#include "readconfig.h"

#ifndef NLAYERS
#define NLAYERS 2
#endif
#ifndef NPOST
#define NPOST 0
#endif
#ifndef SUFFIX_ARG
#define SUFFIX_ARG ".s"
#define SUFFIX_NORM ".s"
#endif

int in_main_state[L_MAX];
int in_ndrop[L_MAX][P_MAX];
int in_dstate[L_MAX][P_MAX][D_MAX];
char in_dname[L_MAX][P_MAX][D_MAX][NAME_CAP];

static bool cb_stub(const char *f, const void *d) { (void)f; (void)d; return true; }

static bool name_char(char c) { return c == 'a' || c == 'b' || c == '.' || c == 's' || c == 'x'; }
static int scmp(const char *a, const char *b)
{
  for (size_t i = 0; i < NAME_CAP; i++) {
    if ((unsigned char)a[i] != (unsigned char)b[i]) return (unsigned char)a[i] < (unsigned char)b[i] ? -1 : 1;
    if (!a[i]) return 0;
  }
  return 0;
}
static size_t slen(const char *s) { size_t n = 0; while (s[n]) n++; return n; }

/* statement: "drop-ins that carry the requested suffix": strictly longer than
 * the suffix and ending in it */
static bool keep(const char *name, const char *suffix)
{
  size_t ln = slen(name), ls = slen(suffix);
  if (ls >= ln) return false;
  for (size_t i = 0; i < ls; i++)
    if (name[ln - ls + i] != suffix[i]) return false;
  return true;
}

struct consult { int layer, post, idx; };

int main(void)
{
  lfs = (struct lfs_ghost){0};
  static char d0[] = "/0", d1[] = "/1", d2[] = "/2";
  char *parse_dirs[4] = { d0, d1, d2, NULL };
  lfs.nlayers = NLAYERS;
  lfs.dir[0] = d0; lfs.dir[1] = d1; lfs.dir[2] = d2;
  lfs.name = "n";
  lfs.suffix = SUFFIX_NORM;
  /* drop-in directory postfixes */
#if NPOST == 0
  char **conf_dirs = NULL;
  int conf_count = 0;
  lfs.npost = 1;
  lfs.post[0] = SUFFIX_NORM ".d";
#else
  static char p0[] = ".d", p1[] = "/c.d";
  char *conf_dirs_arr[3] = { p0, p1, NULL };
  char **conf_dirs = conf_dirs_arr;
  int conf_count = NPOST;
  lfs.npost = NPOST;
  lfs.post[0] = p0; lfs.post[1] = p1;
#endif
  /* symbolic tree */
  for (int l = 0; l < NLAYERS; l++) {
    in_main_state[l] = nondet_int();
    __CPROVER_assume(in_main_state[l] >= F_ABSENT && in_main_state[l] <= F_WRONG_OWNER);
    lfs_main_state[l] = in_main_state[l];
    for (int p = 0; p < lfs.npost; p++) {
      in_ndrop[l][p] = nondet_int();
      __CPROVER_assume(in_ndrop[l][p] >= -1 && in_ndrop[l][p] <= D_MAX);
#ifdef MAXDROP
      __CPROVER_assume(in_ndrop[l][p] <= MAXDROP);
#endif
      lfs_ndrop[l][p] = in_ndrop[l][p];
      for (int d = 0; d < D_MAX; d++) {
        in_dstate[l][p][d] = nondet_int();
        __CPROVER_assume(in_dstate[l][p][d] >= F_ABSENT && in_dstate[l][p][d] <= F_WRONG_OWNER);
        lfs_dstate[l][p][d] = in_dstate[l][p][d];
        bool ended = false;
        for (int c = 0; c < NAME_CAP; c++) {
          char ch = nondet_char();
          if (c == NAME_CAP - 1) ch = 0;
          if (ended) ch = 0;
          if (ch == 0) ended = true; else __CPROVER_assume(name_char(ch));
          if (c == 0) __CPROVER_assume(ch != 0);
          in_dname[l][p][d][c] = ch;
          lfs_dname[l][p][d][c] = ch;
        }
        /* scandir + alphasort: strictly ascending byte order inside a directory */
        if (d > 0) __CPROVER_assume(scmp(lfs_dname[l][p][d - 1], lfs_dname[l][p][d]) < 0);
      }
    }
  }
  lfs.cb = nondet_bool() ? cb_stub : NULL;
  lfs.cb_data = nondet_ptr();
  static char delim[] = "=", comment[] = "#";
  lfs.delim = delim; lfs.comment = comment;
  lfs.join = nondet_bool(); lfs.python = nondet_bool();

  /* ---- reference: DESIGN.md 5.3 ---- */
  struct consult want[MAX_READS];
  int nwant = 0;               /* files consulted, in order */
  int nhist = 0;               /* of those, successfully read */
  econf_err want_err = ECONF_SUCCESS;
  bool aborted = false;
  for (int l = NLAYERS - 1; l >= 0 && !aborted; l--) {
    want[nwant++] = (struct consult){ l, -1, -1 };
    if (lfs_main_state[l] == F_OK) { nhist = 1; break; }
    if (lfs_main_state[l] != F_ABSENT) { aborted = true; want_err = lfs_code(lfs_main_state[l]); }
  }
  for (int l = 0; l < NLAYERS && !aborted; l++)
    for (int p = 0; p < lfs.npost && !aborted; p++)
      for (int d = 0; d < D_MAX && !aborted; d++)
        if (d < lfs_ndrop[l][p] && keep(lfs_dname[l][p][d], SUFFIX_NORM)) {
          want[nwant++] = (struct consult){ l, p, d };
          if (lfs_dstate[l][p][d] == F_OK) nhist++;
          else { aborted = true; want_err = lfs_code(lfs_dstate[l][p][d]); }
        }
  if (!aborted && nhist == 0) want_err = ECONF_NOFILE;

  /* ---- the call ---- */
  econf_file *sentinel_obj = NULL;
  econf_file **kfs = &sentinel_obj;       /* caller-initialised value */
  econf_file **const kfs_init = kfs;
  size_t size = 77;
  const int live0 = lfs.live;
  econf_err r = readConfigHistoryWithCallback(&kfs, &size, parse_dirs, NLAYERS, "n", SUFFIX_ARG,
                                              delim, comment, lfs.join, lfs.python,
                                              conf_dirs, conf_count, lfs.cb, lfs.cb_data);

  /* ---- postcondition ---- */
  __CPROVER_assert(r == want_err, "C01/C13: result code: success, file-not-found when nothing exists, else the code of the first failing file");
  __CPROVER_assert(lfs.nreads == nwant, "C01/C06: exactly the files of the statement are consulted");
  for (int i = 0; i < MAX_READS; i++)
    if (i < nwant && i < lfs.nreads)
      __CPROVER_assert(lfs_reads_layer[i] == want[i].layer && lfs_reads_post[i] == want[i].post &&
                       lfs_reads_idx[i] == want[i].idx,
                       "C01/C06: files are consulted in processing order (main file from the highest layer down, "
                       "stop at first hit; then drop-ins by layer, directory, byte-wise name)");
  if (r == ECONF_SUCCESS) {
    __CPROVER_assert(size == (size_t)nhist && kfs != NULL && kfs != kfs_init, "C12: history lists exactly the files read");
    if (kfs && kfs != kfs_init && size == (size_t)nhist) {
      __CPROVER_assert(kfs[size] == NULL, "C12: history is NULL-terminated");
      int h = 0;
      for (int i = 0; i < MAX_READS; i++)
        if (i < nwant) {
          int st = want[i].idx < 0 ? lfs_main_state[want[i].layer] : lfs_dstate[want[i].layer][want[i].post][want[i].idx];
          if (st == F_OK && h < nhist) {
            __CPROVER_assert(kfs[h] != NULL && kfs[h]->path != NULL, "C12: each history member carries its own path");
            h++;
          }
        }
    }
    __CPROVER_assert(lfs.live == live0 + nhist, "C20: on success exactly the handed-out objects are live");
  } else {
    __CPROVER_assert(kfs == NULL || kfs == kfs_init, "C06/C20: after a failure the history pointer is NULL or untouched");
    __CPROVER_assert(lfs.live == live0, "C20: after a failure every object created by the call has been released");
  }
  VACUITY(r == ECONF_SUCCESS && nhist >= 2, "history with main file and drop-in reachable");
  VACUITY(r == ECONF_NOFILE, "file-not-found reachable");
  VACUITY(r == ECONF_PARSING_CALLBACK_FAILED && nwant >= 2, "rejected later file reachable");
  VACUITY(r == ECONF_MISSING_BRACKET, "parse error reachable");
  VACUITY_END();
  return 0;
}
