/* A numeric setter of lib/keyfile.c under contract.
 * -DSETTER=<fn> -DVT=<value type> */
#include "common.h"
#include "numtext.h"
#include "keyfile_num.h"

int main(void)
{
  g_nt = (struct numtext_ghost){0}; /* dfcc starts statics in an arbitrary state */
  econf_file *ef = malloc(sizeof(econf_file));
  __CPROVER_assume(ef != NULL);
  size_t num = nondet_size_t();
  ef->alloc_length = nondet_size_t();
  ef->length = nondet_size_t();
  __CPROVER_assume(ef->alloc_length >= 1 && ef->alloc_length <= MAX_ENTRIES);
  __CPROVER_assume(ef->length <= ef->alloc_length && num < ef->alloc_length);
  ef->file_entry = mk_entries(ef->alloc_length);
  /* previous value: absent or some heap text */
  ef->file_entry[num].value = nondet_bool() ? NULL : mk_string(4);
  VT in_v;
  econf_err r = SETTER(ef, num, &in_v);
  VACUITY(r == ECONF_SUCCESS, "setter success reachable");
  VACUITY_END();
  return 0;
}
