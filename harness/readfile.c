/* Scenario harness for the parser.  Job parameters (all -D):
 *   DELIM, COMMENT   string literals: delimiter set and comment set
 *   NCTX, CTX0..CTX2 concrete context lines before the line under test
 *   FOLLOW           optional concrete line after it
 *   KIND             K_ANY | K_COMMENT
 *   N                max. bytes of the line under test
 *   PYTHON, JOIN     option flags of the object
 */
#include "common.h"
#include "readfile.h"

#define K_ANY 1
#define K_COMMENT 2

#ifndef N
#define N 8
#endif
#ifndef PYTHON
#define PYTHON 0
#endif
#ifndef JOIN
#define JOIN 0
#endif

char in_line_bytes[N + 1];
size_t in_line_len;

static void add_line(const char *s, size_t len)
{
  fs.line[fs.nlines] = s;
  fs.len[fs.nlines] = len;
  fs.nlines++;
}
#define ADD_LIT(lit) add_line(lit, sizeof(lit) - 1)

static bool is_blank(char c) { return c == ' ' || c == '\t'; }
static bool in_set(char c, const char *set)
{
  for (size_t i = 0; set[i]; i++)
    if (set[i] == c) return true;
  return false;
}

/* the line under test: a buffer of exactly N+1 bytes with arbitrary content;
 * the text ends at the first NUL (so every length 1..N is covered, and a NUL
 * byte in the file is covered too); a newline can only be the last byte of
 * the text because getline splits there.  The buffer has a CONCRETE size:
 * symbolic allocation sizes defeat constant propagation (DESIGN.md 3). */
static char *mk_line(void)
{
  char *p = malloc(N + 1);
  __CPROVER_assume(p != NULL);
  p[N] = 0;
  __CPROVER_assume(p[0] != 0);
  for (size_t i = 0; i < N; i++)
    if (p[i] == '\n') __CPROVER_assume(p[i + 1] == 0);
#if KIND == K_COMMENT
  /* b{0,2} c text [\n]: first non-blank byte is a comment character, the
   * text is arbitrary */
  __CPROVER_assume(in_set(p[0], COMMENT) ||
                   (is_blank(p[0]) && (in_set(p[1], COMMENT) ||
                                       (is_blank(p[1]) && in_set(p[2], COMMENT)))));
#endif
  in_line_len = N;
  for (size_t i = 0; i <= N; i++) in_line_bytes[i] = p[i];
  return p;
}

static econf_file *new_object(void)
{
  econf_file *ef = calloc(1, sizeof(econf_file));
  __CPROVER_assume(ef != NULL);
  ef->python_style = PYTHON;
  ef->join_same_entries = JOIN;
  return ef;
}

static econf_err parse(econf_file *ef, const char *test_line, size_t test_len)
{
  fs.nlines = 0; fs.next = 0;
#if NCTX >= 1
  ADD_LIT(CTX0);
#endif
#if NCTX >= 2
  ADD_LIT(CTX1);
#endif
#if NCTX >= 3
  ADD_LIT(CTX2);
#endif
  if (test_line) add_line(test_line, test_len);
#ifdef FOLLOW
  ADD_LIT(FOLLOW);
#endif
  return checked_read_file(ef, "/f", DELIM, COMMENT);
}

static bool same_str(const char *a, const char *b)
{
  if (a == NULL || b == NULL) return a == b;
  return strcmp(a, b) == 0;
}

int main(void)
{
  fs = (struct fs_ghost){0};
  char *line = mk_line();
  econf_file *a = new_object();
  econf_err ra = parse(a, line, in_line_len);
#if KIND == K_COMMENT
  /* C05: the same file without the commented-out line */
  econf_file *b = new_object();
  econf_err rb = parse(b, NULL, 0);
  __CPROVER_assert(ra == rb, "C05: a comment line does not change the result code");
  if (ra == ECONF_SUCCESS && rb == ECONF_SUCCESS) {
    __CPROVER_assert(a->length == b->length, "C05: a comment line adds or removes no key");
    __CPROVER_assert(a->group_count == b->group_count, "C05: a comment line adds or removes no section");
    for (size_t i = 0; i < b->length && i < a->length; i++) {
      __CPROVER_assert(same_str(a->file_entry[i].key, b->file_entry[i].key), "C05: keys unchanged by a comment line");
      __CPROVER_assert(same_str(a->file_entry[i].value, b->file_entry[i].value), "C05: values unchanged by a comment line");
      __CPROVER_assert(same_str(a->file_entry[i].group, b->file_entry[i].group), "C05: sections unchanged by a comment line");
    }
  }
#endif
  VACUITY(ra == ECONF_SUCCESS, "successful parse reachable");
  VACUITY_END();
  return 0;
}
