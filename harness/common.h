/* Shared harness helpers.  Harness inputs that a native replay needs are
 * stored in variables whose names start with in_ (the trace extractor looks
 * for that prefix). */
#pragma once
#include <stdint.h>
#include <stdbool.h>
#include <stddef.h>
#include <stdlib.h>
#include <string.h>
#include "libeconf.h"
#include "keyfile.h"

size_t nondet_size_t(void);
int nondet_int(void);
unsigned nondet_unsigned(void);
char nondet_char(void);
bool nondet_bool(void);
int64_t nondet_int64(void);
uint64_t nondet_uint64(void);
int32_t nondet_int32(void);
uint32_t nondet_uint32(void);
float nondet_float(void);
double nondet_double(void);
void *nondet_ptr(void);

/* the reachability assertion every harness ends with: it MUST fail */
#define VACUITY_END() __CPROVER_assert(0, "VACUITY harness end reachable")
#define VACUITY(cond, what) __CPROVER_assert(!(cond), "VACUITY " what)

/* A heap string of symbolic length < cap with arbitrary bytes (every byte
 * value, the terminator may come early). */
static inline char *mk_string(size_t cap)
{
  size_t n = nondet_size_t();
  __CPROVER_assume(n >= 1 && n <= cap);
  char *s = malloc(n);
  __CPROVER_assume(s != NULL);
  s[n - 1] = 0;
  return s;
}

/* An entry array of `alloc` slots in which only slot `num` is initialised
 * (everything else is left unconstrained, so touching it is an error the
 * pointer checks see). */
static inline struct file_entry *mk_entries(size_t alloc)
{
  struct file_entry *fe = malloc(alloc * sizeof(struct file_entry));
  __CPROVER_assume(fe != NULL);
  return fe;
}

/* copy the first `cap` bytes of a harness string into a named in_ array so
 * that a counterexample trace shows its text */
#define RECORD_STRING(arr, s, cap)                                   \
  do { if (s) { for (size_t _i = 0; _i < (cap); _i++) {              \
         (arr)[_i] = (s)[_i]; if (!(s)[_i]) break; } } } while (0)

#define MAX_ENTRIES ((size_t)1 << 20)
