/* getBoolValueNum on an entry array of symbolic length; the stored value is
 * an arbitrary byte string (or absent when WITH_NULL). */
#include "common.h"
#include "spec.h"

int g_bool_class;
#ifndef VALCAP
#define VALCAP 6
#endif

#define RECCAP 8
char in_value_bytes[RECCAP];

int main(void)
{
  econf_file kf;
  size_t num = nondet_size_t();
  kf.alloc_length = nondet_size_t();
  kf.length = nondet_size_t();
  __CPROVER_assume(kf.alloc_length >= 1 && kf.alloc_length <= MAX_ENTRIES);
  __CPROVER_assume(kf.length <= kf.alloc_length && num < kf.length);
  kf.file_entry = mk_entries(kf.alloc_length);
#ifdef WITH_NULL
  char *in_value = NULL;
#else
  char *in_value = mk_string(VALCAP);
#endif
  RECORD_STRING(in_value_bytes, in_value, (VALCAP < RECCAP ? VALCAP : RECCAP));
  kf.file_entry[num].value = in_value;
  g_bool_class = in_value ? spec_bool_class(in_value) : -2;
  bool out = nondet_bool();
  econf_err r = getBoolValueNum(kf, num, &out);
#ifdef WITH_NULL
  VACUITY(g_bool_class == -2, "absent value reachable");
#else
  VACUITY(g_bool_class == 1, "true word reachable");
  VACUITY(g_bool_class == 0, "false word reachable");
  VACUITY(g_bool_class == -1 && r != ECONF_SUCCESS, "refusal reachable");
#endif
  VACUITY_END();
  return 0;
}
