/* join_same_entries (static in lib/getfilecontents.c; the real file is
 * #included so that the static function can be called) on three entries
 * (C15), each in section [g] or [h] (symbolic, so that definitions of a key
 * may be separated by an entry of another section).  -DVALS="xyz": value of each entry: n = absent, e = empty,
 * a = "a", b = " b" (leading blank).  Keys symbolic (k or m per entry).
 * Expected (statement): the value LIST of a key = the lines of all its
 * definitions since its last empty definition, in file order; a list is the
 * stored text split at newlines with blank-trimmed items (as the extended
 * getter reports it). */
#include "common.h"
#include "asprintf_shim.h"
#include "stdio_real.h"
#include "getfilecontents.c"

#ifndef VALS
#define VALS "aab"
#endif
#define NE 3
unsigned char in_key[NE], in_grp[NE];
#define SAME(i, j) (in_key[i] == in_key[j] && in_grp[i] == in_grp[j])

static char *val_of(char c) { return c == 'n' ? NULL : c == 'e' ? strdup("") : c == 'a' ? strdup("a") : strdup(" b"); }
static const char *line_of(char c) { return c == 'a' ? "a" : c == 'b' ? "b" : NULL; }   /* trimmed line, NULL = empty/absent */

int main(void)
{
  econf_file *ef = calloc(1, sizeof(econf_file));
  __CPROVER_assume(ef != NULL);
  ef->file_entry = malloc(NE * sizeof(struct file_entry));
  __CPROVER_assume(ef->file_entry != NULL);
  ef->length = ef->alloc_length = NE;
  char *grp[2] = { strdup("g"), strdup("h") };
  for (int i = 0; i < NE; i++) {
    in_key[i] = nondet_bool(); in_grp[i] = nondet_bool();
    struct file_entry *e = &ef->file_entry[i];
    e->group = grp[in_grp[i]]; e->key = strdup(in_key[i] ? "m" : "k"); e->value = val_of(VALS[i]);
    e->comment_before_key = NULL; e->comment_after_value = NULL; e->line_number = i + 1; e->quotes = false;
  }
  econf_err r = join_same_entries(ef);
  __CPROVER_assert(r == ECONF_SUCCESS, "C15: joining succeeds");
  __CPROVER_assert(ef->length == NE, "C15: no entry is lost by joining");
  /* for the first definition of each key: the expected list of lines */
  for (int i = 0; i < NE; i++) {
    bool first = true;
    for (int j = 0; j < i; j++) if (SAME(j, i)) first = false;
    if (!first) continue;
    const char *want[NE]; int nw = 0;
    bool later = false;
    if (line_of(VALS[i])) want[nw++] = line_of(VALS[i]);
    for (int j = i + 1; j < NE; j++)
      if (SAME(j, i)) {
        later = true;
        if (line_of(VALS[j])) want[nw++] = line_of(VALS[j]); else nw = 0;   /* an empty definition resets */
      }
    const char *v = ef->file_entry[i].value;
    if (!later) continue;                                       /* single definition: untouched, checked below */
    __CPROVER_assert(v != NULL, "C15: a joined key has a value");
    if (!v) continue;
    /* walk the stored text: items separated by newlines, blank-trimmed, empty items skipped */
    size_t p = 0; int got = 0; bool ok = true;
    for (int item = 0; item < 4 && ok; item++) {
      while (v[p] == ' ' || v[p] == '\t' || v[p] == '\n') p++;
      if (!v[p]) break;
      if (got >= nw) { ok = false; break; }
      size_t m = 0;
      for (; want[got][m]; m++) if (v[p + m] != want[got][m]) ok = false;
      if (ok) { p += m; got++; while (v[p] == ' ' || v[p] == '\t') p++; if (v[p] && v[p] != '\n') ok = false; }
    }
    __CPROVER_assert(ok && got == nw, "C15: JOIN_SAME_ENTRIES: the value list is the lines of all definitions since the last empty one, in file order");
  }
  VACUITY(SAME(0, 2) && in_grp[1] != in_grp[0], "key re-defined after an entry of another section reachable");
  VACUITY_END();
  return 0;
}
