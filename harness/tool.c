/* util/econftool.c (real code, #included so that its static functions can be
 * called; main is renamed) against the executable contracts of the library
 * API it uses (C19).  -DPART=1 pr_key_file (show), 2 econf_read (syntax /
 * show), 3 econf_cat, 4 replace_str.
 * The object is a ghost: up to 2 sections with up to 2 keys each plus up to
 * 2 group-less keys, every count symbolic. */
#define VERIF_SHIM_PRINTF 1
#include "common.h"
#include "asprintf_shim.h"
#include "libeconf_ext.h"
#define main econftool_main
#include "econftool.c"
#undef main

/* ---- ghost configuration ------------------------------------------------ */
#define MAXG 2
#define MAXK 2
int in_ngroups, in_nkeys[MAXG + 1];        /* in_nkeys[0]: group-less keys */
bool in_nogroup_code;                        /* getGroups answers ECONF_NOGROUP instead of an empty list */
static const char *GN[MAXG + 1] = { NULL, "A", "B" };
static const char *KN[MAXG + 1][MAXK] = { { "x0", "y0" }, { "x1", "y1" }, { "x2", "y2" } };
static const char *VN[MAXG + 1][MAXK] = { { "a0", "b0" }, { "a1", "b1" }, { "a2", "b2" } };

/* ---- log of what was printed ---------------------------------------------- */
enum { P_GROUP = 1, P_KEY, P_VAL, P_VALN, P_BLANK, P_OTHER, P_GROUP_EMPTY };
#define PMAX 120
int pr_n, pr_kind[PMAX];
char pr_c0[PMAX], pr_c1[PMAX];   /* first two bytes of the %s argument at print time */
int err_loc_calls, err_str_calls, stderr_lines;
econf_file *getpath_log[4]; int getpath_n;
int freefile_n; econf_file *freefile_log[4];

int verif_printf(const char *fmt, struct varg a, struct varg b, struct varg c)
{
  int k = P_OTHER; const char *s = a.s;
  if (!strcmp(fmt, "%s\n")) k = P_GROUP;             /* section header or first value line: told apart by position */
  else if (!strcmp(fmt, "%s = ")) k = P_KEY;
  else if (!strcmp(fmt, "     %s\n")) k = P_VALN;
  else if (!strcmp(fmt, "\n")) k = P_BLANK;
  else if (!strcmp(fmt, "%s\n\n")) k = P_GROUP_EMPTY;          /* a section without keys */
  __CPROVER_assert(pr_n < PMAX, "econftool harness: print log large enough");
  if (pr_n < PMAX) { pr_kind[pr_n] = k; pr_c0[pr_n] = s ? s[0] : 0; pr_c1[pr_n] = (s && s[0]) ? s[1] : 0; pr_n++; }
  return 1;
}
int verif_fprintf(FILE *stream, const char *fmt, struct varg a, struct varg b, struct varg c)
{
  if (stream == stderr) stderr_lines++;
  return 1;
}
int verif_snprintf(char *buf, size_t size, const char *fmt, struct varg a, struct varg b, struct varg c)
{
  /* replace_str: "%s%s" */
  __CPROVER_precondition(!strcmp(fmt, "%s%s") && a.kind == VK_STR && b.kind == VK_STR && a.s && b.s, "snprintf %s%s");
  size_t n = 0;
  for (size_t i = 0; a.s[i]; i++) { if (n + 1 < size) buf[n] = a.s[i]; n++; }
  for (size_t i = 0; b.s[i]; i++) { if (n + 1 < size) buf[n] = b.s[i]; n++; }
  if (size > 0) buf[n < size ? n : size - 1] = 0;
  return (int)n;
}

/* ---- executable contracts of the library API (C11 / C17 postconditions) ---- */
econf_file the_obj, hist_obj[3];
static econf_err api_ret;           /* what the read entry point answers */
static econf_file **api_hist; static size_t api_hist_size;

char *econf_getPath(econf_file *kf)
{
  if (getpath_n < 4) getpath_log[getpath_n] = kf;
  getpath_n++;
  return strdup("");
}
econf_err econf_getGroups(econf_file *kf, size_t *length, char ***groups)
{
  __CPROVER_assert(kf && length && groups, "getGroups arguments");
  if (in_ngroups == 0 && in_nogroup_code) return ECONF_NOGROUP;
  *length = in_ngroups;
  *groups = NULL;
  if (in_ngroups == 0) return ECONF_SUCCESS;     /* an empty list */
  char **g = calloc(in_ngroups + 1, sizeof(char *));
  __CPROVER_assume(g != NULL);
  for (int i = 0; i < MAXG; i++) if (i < in_ngroups) g[i] = strdup(GN[i + 1]);
  *groups = g;
  return ECONF_SUCCESS;
}
static int gindex(const char *grp)
{
  if (grp == NULL || grp[0] == 0) return 0;
  return grp[0] == 'A' ? 1 : grp[0] == 'B' ? 2 : -1;
}
econf_err econf_getKeys(econf_file *kf, const char *grp, size_t *length, char ***keys)
{
  int g = gindex(grp);
  __CPROVER_assert(g >= 0 && g <= in_ngroups, "C19: keys are asked for listed sections (or the group-less one) only");
  if (length) *length = 0;
  if (g < 0 || in_nkeys[g] == 0) return ECONF_NOKEY;
  char **k = calloc(in_nkeys[g] + 1, sizeof(char *));
  __CPROVER_assume(k != NULL);
  for (int i = 0; i < MAXK; i++) if (i < in_nkeys[g]) k[i] = strdup(KN[g][i]);
  *keys = k;
  if (length) *length = in_nkeys[g];
  return ECONF_SUCCESS;
}
econf_err econf_getExtValue(econf_file *kf, const char *group, const char *key, econf_ext_value **result)
{
  int g = gindex(group);
  __CPROVER_assert(g >= 0 && key != NULL, "C19: values are asked for listed keys only");
  int ki = key[0] == 'x' ? 0 : 1;
  econf_ext_value *v = calloc(1, sizeof(econf_ext_value));
  __CPROVER_assume(v != NULL);
  v->values = calloc(2, sizeof(char *));
  __CPROVER_assume(v->values != NULL);
  v->values[0] = strdup(VN[g < 0 ? 0 : g][ki]);
  *result = v;
  return ECONF_SUCCESS;
}
void econf_freeExtValue(econf_ext_value *v) { if (v) { free(v->values[0]); free(v->values); free(v); } }
char **econf_freeArray(char **a) { if (a) { for (size_t i = 0; a[i]; i++) free(a[i]); free(a); } return NULL; }
econf_file *econf_freeFile(econf_file *kf) { if (kf) { if (freefile_n < 4) freefile_log[freefile_n] = kf; freefile_n++; } return NULL; }
void econf_errLocation(char **filename, uint64_t *line_nr) { err_loc_calls++; *filename = strdup("/f"); *line_nr = 3; }
const char *econf_errString(const econf_err e) { err_str_calls++; return "msg"; }
/* C19: the tool shows what the LIBRARY returns for the same arguments: vendor
 * directory first, then the local one, the name/suffix it split off, and the
 * caller's delimiter and comment sets */
static const char *want_delim, *want_comment;
#define LAYER_ARGS_OK (a == usr_root_dir && b == root_dir && n == conf_basename && s == conf_suffix && \
                       (want_delim == NULL || (d == want_delim && c == want_comment)))
econf_err econf_readFile(econf_file **r, const char *f, const char *d, const char *c)
{
  __CPROVER_assert(want_delim == NULL || (d == want_delim && c == want_comment), "C19: a single file is read with the caller's delimiter and comment sets");
  *r = api_ret == ECONF_SUCCESS ? &the_obj : NULL; return api_ret;
}
econf_err econf_readDirs(econf_file **r, const char *a, const char *b, const char *n, const char *s, const char *d, const char *c)
{
  __CPROVER_assert(LAYER_ARGS_OK, "C19: the layered read gets (vendor dir, local dir, name, suffix, delimiters, comments) in the library's order");
  *r = api_ret == ECONF_SUCCESS ? &the_obj : NULL; return api_ret;
}
econf_err econf_readDirsHistory(econf_file ***kfs, size_t *size, const char *a, const char *b, const char *n, const char *s, const char *d, const char *c)
{
  __CPROVER_assert(LAYER_ARGS_OK, "C19: the history read gets (vendor dir, local dir, name, suffix, delimiters, comments) in the library's order");
  if (api_ret == ECONF_SUCCESS) { *kfs = api_hist; *size = api_hist_size; } else { *kfs = NULL; *size = 0; } return api_ret;
}
econf_err nondet_code(void);

int main(void)
{
  in_ngroups = nondet_int(); __CPROVER_assume(in_ngroups >= 0 && in_ngroups <= MAXG);
  for (int g = 0; g <= MAXG; g++) {
    in_nkeys[g] = nondet_int();
    __CPROVER_assume(in_nkeys[g] >= 0 && in_nkeys[g] <= MAXK);
  }
  in_nogroup_code = nondet_bool();
  api_ret = nondet_code(); __CPROVER_assume(api_ret >= ECONF_SUCCESS && api_ret <= ECONF_VALUE_CONVERSION_ERROR);
#if PART == 1 || PART == 2
#if PART == 1
  econf_err r = pr_key_file(&the_obj);
  __CPROVER_assert(r == ECONF_SUCCESS, "C19: showing a readable configuration succeeds");
  const bool shown = true;
#else
  bool show = nondet_bool();
  conf_filename[0] = nondet_bool() ? '/' : 'c'; conf_filename[1] = 0;
  econf_file *kf = NULL;
  static const char dl[] = "=", cm[] = "#";
  want_delim = dl; want_comment = cm;
  int r = econf_read(&kf, dl, cm, show);
  __CPROVER_assert((r != 0) == (api_ret != ECONF_SUCCESS), "C19: syntax/show fail exactly when the library reports an error");
  if (api_ret != ECONF_SUCCESS)
    __CPROVER_assert(err_loc_calls >= 1 && err_str_calls >= 1 && stderr_lines >= 1,
                     "C19: ... and then the error is printed with the file and line of the error location");
  const bool shown = show && api_ret == ECONF_SUCCESS;
#endif
  if (shown) {
    /* walk the print log: [group-less keys] then every section with its keys */
    int t = 0;
    while (t < pr_n && pr_kind[t] == P_OTHER) t++;     /* header lines */
    for (int g = 0; g <= MAXG; g++) {
      if (g > in_ngroups) break;
      if (g == 0 && in_nkeys[0] == 0) continue;
      if (g >= 1 && in_nkeys[g] == 0) {
        /* a header without keys is a listed section too (econf_getKeys answers not-found for it) */
        __CPROVER_assert(t < pr_n && pr_kind[t] == P_GROUP_EMPTY && pr_c0[t] == GN[g][0], "C19: a section without keys is printed and the listing goes on");
        t++;
        continue;
      }
      if (g >= 1) {
        __CPROVER_assert(t < pr_n && pr_kind[t] == P_GROUP && pr_c0[t] == GN[g][0], "C19: every section is printed, in order");
        t++;
      }
      for (int k = 0; k < MAXK; k++)
        if (k < in_nkeys[g]) {
          __CPROVER_assert(t + 1 < pr_n && pr_kind[t] == P_KEY && pr_c0[t] == KN[g][k][0] && pr_c1[t] == KN[g][k][1],
                           "C19: every key of every section - group-less keys included - is printed");
          __CPROVER_assert(t + 1 < pr_n && pr_kind[t + 1] == P_GROUP && pr_c0[t + 1] == VN[g][k][0] && pr_c1[t + 1] == VN[g][k][1], "C19: ... followed by its value");
          t += 2;
        }
      __CPROVER_assert(t < pr_n && pr_kind[t] == P_BLANK, "C19: a section ends with an empty line");
      t++;
    }
    __CPROVER_assert(t == pr_n, "C19: nothing else is printed");
  }
#elif PART == 3
  int nh = nondet_int(); __CPROVER_assume(nh >= 1 && nh <= 3);
  api_hist = malloc(4 * sizeof(econf_file *)); __CPROVER_assume(api_hist != NULL);
  for (int i = 0; i < 3; i++) api_hist[i] = &hist_obj[i];
  api_hist[3] = NULL; api_hist_size = nh;
  conf_filename[0] = 'c'; conf_filename[1] = 0;
  static const char dl[] = "=", cm[] = "#";
  want_delim = dl; want_comment = cm;
  int r = econf_cat(dl, cm);
  __CPROVER_assert((r != 0) == (api_ret != ECONF_SUCCESS), "C19: cat fails exactly when the library reports an error");
  if (api_ret == ECONF_SUCCESS) {
    __CPROVER_assert(getpath_n == nh, "C19: cat lists every consulted file once");
    for (int i = 0; i < 3; i++)
      if (i < nh && i < getpath_n)
        __CPROVER_assert(getpath_log[i] == &hist_obj[i] && freefile_log[i] == &hist_obj[i], "C19: ... in processing order (and releases it)");
    __CPROVER_assert(freefile_n == nh, "C20: every history member is released once");
  }
#elif PART == 5
  /* the chain main() runs over --delimiters: every escape is translated, the others survive
   * (from the second translation on the input of replace_str IS its static buffer) */
  static char arg[] = "=\\t:\\f";          /* the 7 characters  = \ t : \ f  */
  char *d = arg;
  d = replace_str(d, "\\t", "\t");
  d = replace_str(d, "\\f", "\f");
  d = replace_str(d, "\\n", "\n");
  d = replace_str(d, "\\r", "\r");
  d = replace_str(d, "\\v", "\v");
  __CPROVER_assert(d[0] == '=' && d[1] == '\t' && d[2] == ':' && d[3] == '\f' && d[4] == 0,
                   "C19: every escape in --delimiters is translated and nothing else is lost");
  int r = 0;
#else
  /* replace_str: no write outside the static 1 KiB buffer; -DRLEN = length of the
   * --delimiters argument, -DRPOS = position of the escape (both concrete per job) */
  char *str = malloc(RLEN + 1); __CPROVER_assume(str != NULL);
  size_t pos = RPOS;    /* position of the escape, concrete per job */
  for (size_t i = 0; i < RLEN; i++) str[i] = 'a';
  str[RLEN] = 0;
  str[pos] = '\\'; str[pos + 1] = 't';
  char *res = replace_str(str, "\\t", "\t");
  __CPROVER_assert(res != NULL, "C14: replace_str returns a string");
  int r = 0;
#endif
  VACUITY_END();
  return 0;
}
