/* econf_readFileWithCallback (-DFN=1) / econf_readFile (-DFN=2) under
 * contract (contracts/entry.h).  Arguments: any pointers, NULL included;
 * the callees are replaced by their contracts, so no string is read. */
#include "common.h"
#include "entry.h"

struct rfwc_ghost g;
bool cb_stub(const char *filename, const void *data) { (void)filename; (void)data; return true; }
econf_file *nondet_obj(void);

int main(void)
{
  g = (struct rfwc_ghost){0};   /* dfcc starts every static object in an arbitrary state */
  econf_file *slot = nondet_obj();            /* whatever the caller's variable held */
  char *name = nondet_bool() ? NULL : mk_string(8);
  char *delim = nondet_bool() ? NULL : mk_string(4);
  char *comment = nondet_bool() ? NULL : mk_string(4);
  g.name = name; g.delim_arg = delim; g.comment_arg = comment;
#if FN == 1
  g.cb_given = nondet_bool();
  g.cb_data = nondet_ptr();
  econf_err r = econf_readFileWithCallback(&slot, name, delim, comment, g.cb_given ? cb_stub : NULL, g.cb_data);
#else
  g.cb_given = 0; g.cb_data = NULL;
  econf_err r = econf_readFile(&slot, name, delim, comment);
#endif
  VACUITY(r == ECONF_SUCCESS, "success reachable");
  VACUITY(r == ECONF_WRONG_OWNER, "wrong owner reachable");
  VACUITY(r == ECONF_ERROR_FILE_IS_SYM_LINK, "symlink refusal reachable");
#if FN == 1
  VACUITY(r == ECONF_PARSING_CALLBACK_FAILED, "callback rejection reachable");
#endif
  VACUITY(g.rf_calls == 1 && r != ECONF_SUCCESS, "parse failure reachable");
  VACUITY(r == ECONF_NOMEM, "allocation failure reachable");
  VACUITY_END();
  return 0;
}
