/* econf_mergeFiles under contract (contracts/mergetop.h): entry arrays of
 * symbolic length; only the first entry's group of each side is looked at. */
#include "common.h"
#include "mergetop.h"
struct mt_ghost mt;
static econf_file *mk(void)
{
  if (nondet_bool()) return NULL;
  econf_file *f = malloc(sizeof(econf_file)); __CPROVER_assume(f != NULL);
  f->length = nondet_size_t(); f->alloc_length = nondet_size_t();
  __CPROVER_assume(f->length <= f->alloc_length && f->alloc_length <= MAX_ENTRIES);
  f->file_entry = f->alloc_length ? mk_entries(f->alloc_length) : NULL;
  if (f->alloc_length) f->file_entry[0].group = nondet_bool() ? "_none_" : "A";
  f->delimiter = nondet_char(); f->comment = nondet_char();
  return f;
}
int main(void)
{
  mt = (struct mt_ghost){0};
  mt.usr = mk(); mt.etc = mk();
  mt.ins_ret = nondet_size_t(); mt.mrg_ret = nondet_size_t(); mt.add_ret = nondet_size_t();
  mt.add_fe_out = nondet_ptr();
  econf_file *m = nondet_ptr();
  econf_err r = econf_mergeFiles(&m, mt.usr, mt.etc);
  VACUITY(r == ECONF_SUCCESS && mt.ins_calls == 1, "group-less entries copied first reachable");
  VACUITY(r == ECONF_SUCCESS && mt.ins_calls == 0, "no leading copy reachable");
  VACUITY(r == ECONF_ERROR, "missing object reachable");
  VACUITY_END();
  return 0;
}
