/* get_absolute_path (lib/helpers.c): C17 "the absolute path ... also when a
 * relative name was given".  realpath is a stub that may fail or write any
 * absolute path of < 8 bytes into the caller's PATH_MAX buffer. */
#include "common.h"
#include "helpers.h"
#include <limits.h>
int in_realpath_fails;
char in_resolved[8];
char *realpath(const char *path, char *resolved)
{
  __CPROVER_precondition(path != NULL && resolved != NULL, "realpath: arguments not NULL");
  if (in_realpath_fails) return NULL;
  for (int i = 0; i < 8; i++) resolved[i] = in_resolved[i];
  return resolved;
}
int main(void)
{
  in_realpath_fails = nondet_bool();
  in_resolved[0] = '/'; in_resolved[7] = 0;
  for (int i = 1; i < 7; i++) in_resolved[i] = nondet_char();
  char *name = mk_string(6);
  __CPROVER_assume(name[0] != 0);
  econf_err err = ECONF_SUCCESS;
  char *abs = get_absolute_path(name, nondet_bool() ? &err : NULL);
  if (name[0] == '/') {
    __CPROVER_assert(abs != NULL && abs != name && strcmp(abs, name) == 0, "C17: an absolute name is kept (as a copy)");
  } else if (in_realpath_fails) {
    __CPROVER_assert(abs == NULL, "C13: an unresolvable relative name gives no path");
  } else {
    __CPROVER_assert(abs != NULL && abs[0] == '/' && strcmp(abs, in_resolved) == 0, "C17: a relative name is resolved to the absolute path");
  }
  free(abs);
  VACUITY(name[0] != '/' && abs != NULL, "relative name resolved reachable");
  VACUITY_END();
  return 0;
}
