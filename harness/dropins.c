/* traverse_conf_dirs + check_conf_dir (real code, lib/mergefiles.c) for the
 * drop-in directories of ONE layer, against the executable contracts in
 * stubs/h2.c  -  C01 C06 C13 C20.
 *
 * -DNPOST=1..2 directories, each with up to H2_NAMES names of <= 4 bytes over
 * {a, b, ., s}, symbolic, in strictly ascending byte order; every file state
 * symbolic.  -DSUFFIX=<literal> the (normalised) suffix.
 * -DPRE=<n> objects already in the array (main file / lower layers). */
#include "common.h"
#include "h2.h"
#include "mergefiles.h"

#ifndef NPOST
#define NPOST 1
#endif
#ifndef SUFFIX
#define SUFFIX ".s"
#endif
#ifndef PRE
#define PRE 1
#endif

int in_ndrop[H2_POST], in_state[H2_POST][H2_NAMES];
char in_name[H2_POST][H2_NAMES][H2_CAP];

static bool cb_stub(const char *f, const void *d) { (void)f; (void)d; return true; }
static bool name_char(char c) { return c == 'a' || c == 'b' || c == '.' || c == 's'; }
static int scmp(const char *a, const char *b)
{
  for (size_t i = 0; i < H2_CAP; i++) {
    if ((unsigned char)a[i] != (unsigned char)b[i]) return (unsigned char)a[i] < (unsigned char)b[i] ? -1 : 1;
    if (!a[i]) return 0;
  }
  return 0;
}
static size_t slen(const char *s) { size_t n = 0; while (s[n]) n++; return n; }
/* statement: a drop-in "carries the requested suffix": strictly longer than
 * the suffix and ending in it (dot files included) */
static bool keep(const char *name, const char *suffix)
{
  size_t ln = slen(name), ls = slen(suffix);
  if (ls >= ln) return false;
  for (size_t i = 0; i < ls; i++)
    if (name[ln - ls + i] != suffix[i]) return false;
  return true;
}

int main(void)
{
  h2 = (struct h2_ghost){0};
  static char p0[] = ".s.d", p1[] = "/c.d";
  char *config_dirs[3] = { p0, NPOST > 1 ? p1 : NULL, NULL };
  h2.npost = NPOST;
  h2.post[0] = p0; h2.post[1] = p1;
  h2.base = "/1/n";
  for (int p = 0; p < NPOST; p++) {
    in_ndrop[p] = nondet_int();
    __CPROVER_assume(in_ndrop[p] >= -1 && in_ndrop[p] <= H2_NAMES);
    h2_ndrop[p] = in_ndrop[p];
    for (int d = 0; d < H2_NAMES; d++) {
      in_state[p][d] = nondet_int();
      __CPROVER_assume(in_state[p][d] >= F_ABSENT && in_state[p][d] <= F_WRONG_OWNER);
      h2_state[p][d] = in_state[p][d];
      bool ended = false;
      for (int c = 0; c < H2_CAP; c++) {
        char ch = nondet_char();
        if (c == H2_CAP - 1 || ended) ch = 0;
        if (ch == 0) ended = true; else __CPROVER_assume(name_char(ch));
        if (c == 0) __CPROVER_assume(ch != 0);
        in_name[p][d][c] = ch;
        H2_NAME(p, d)[c] = ch;
      }
      if (d > 0) __CPROVER_assume(scmp(H2_NAME(p, d - 1), H2_NAME(p, d)) < 0);
    }
  }
  h2.cb = nondet_bool() ? cb_stub : NULL;
  h2.cb_data = nondet_ptr();
  static char delim[] = "=", comment[] = "#";
  h2.delim = delim; h2.comment = comment;
  h2.join = nondet_bool(); h2.python = nondet_bool();

  /* the array as readConfigHistoryWithCallback hands it over: PRE objects
   * and one free slot; size counts the free slot */
  size_t size = PRE + 1;
  econf_file **kfs = calloc(size, sizeof(econf_file *));
  __CPROVER_assume(kfs != NULL);
  econf_file *pre[PRE + 1];
  for (int i = 0; i < PRE; i++) { econf_newKeyFile_with_options(&pre[i], ""); kfs[i] = pre[i]; }

  /* ---- reference ---- */
  int want_post[H2_MAXFILES], want_idx[H2_MAXFILES], nwant = 0, nok = 0, want_scans = 0;
  econf_err want_err = ECONF_SUCCESS;
  bool aborted = false;
  for (int p = 0; p < NPOST && !aborted; p++) {
    want_scans++;
    for (int d = 0; d < H2_NAMES && !aborted; d++)
      if (d < h2_ndrop[p] && keep(H2_NAME(p, d), SUFFIX)) {
        want_post[nwant] = p; want_idx[nwant] = d; nwant++;
        if (h2_state[p][d] == F_OK) nok++;
        else {
          aborted = true;
          want_err = h2_state[p][d] == F_ABSENT ? ECONF_NOFILE : h2_state[p][d] == F_PARSE_ERROR ? ECONF_MISSING_BRACKET :
                     h2_state[p][d] == F_REJECTED ? ECONF_PARSING_CALLBACK_FAILED : ECONF_WRONG_OWNER;
        }
      }
  }

  econf_err r = traverse_conf_dirs(&kfs, config_dirs, &size, "/1/n", SUFFIX, delim, comment,
                                   h2.join, h2.python, h2.cb, h2.cb_data);

  /* ---- postcondition (this is the contract stubs/h1.c assumes) ---- */
  __CPROVER_assert(r == want_err, "C13: success, or the code of the first drop-in that fails");
  __CPROVER_assert(h2.nscans == want_scans, "C01: every drop-in directory is scanned until a file fails");
  __CPROVER_assert(h2.nreads == nwant, "C01: exactly the names that are longer than the suffix and end in it are consulted");
  for (int i = 0; i < H2_MAXFILES; i++)
    if (i < nwant && i < h2.nreads)
      __CPROVER_assert(h2_read_post[i] == want_post[i] && h2_read_idx[i] == want_idx[i],
                       "C01/C06: drop-ins are consulted directory by directory in byte-wise name order");
  __CPROVER_assert(size == (size_t)(PRE + nok + 1), "C12: the array grew by the files read (size counts the free slot)");
  __CPROVER_assert(kfs != NULL && __CPROVER_OBJECT_SIZE(kfs) == size * sizeof(econf_file *),
                   "C04: the array has exactly size slots");
  if (kfs && size == (size_t)(PRE + nok + 1)) {
    for (int i = 0; i < PRE; i++)
      __CPROVER_assert(kfs[i] == pre[i], "C12: earlier members keep their place");
    for (size_t i = PRE; i < H2_MAXFILES; i++)
      if (i + 1 < size)
        __CPROVER_assert(kfs[i] != NULL && kfs[i]->path != NULL && kfs[i]->on_merge_delete,
                         "C12: each new member is a read object carrying its path");
  }
  __CPROVER_assert(h2.live == PRE + nok,
                   "C20: exactly the objects in the array are live (the object of a failing drop-in is released)");
  VACUITY(r == ECONF_SUCCESS && nok >= 2, "two drop-ins read reachable");
  VACUITY(r == ECONF_PARSING_CALLBACK_FAILED && nok >= 1, "second drop-in rejected reachable");
  VACUITY(r == ECONF_MISSING_BRACKET, "parse error reachable");
#ifndef SUFFIX_EMPTY
  VACUITY(nwant == 0 && h2_ndrop[0] == 2, "names without the suffix reachable");
#endif
  VACUITY_END();
  return 0;
}
