/* econf_writeFile (real code) against a reference writer over TOKENS
 * (stubs/writer_tok.c): C07, C10, C14.
 *
 *  -DN=1..4 entries; section (group-less, A, B), key and quote flag of every
 *  entry symbolic; values and comments are strings of concrete length
 *  (-DVL/-DCB/-DCA digit strings) with symbolic bytes; a comment before the
 *  key may contain newlines (multi-line comment block).
 *  BUFSIZ is scaled to 8 (contracts/bufsiz_small.h): values/comments longer
 *  than any BUFSIZ-sized buffer must still be written whole (C14).
 *
 * Contract (from the statement): every key line is emitted while the section
 * in effect in the OUTPUT equals the entry's section; the key line is
 * key + the object's delimiter + value, in quotes iff the flag is set; comment
 * lines carry the object's comment character and the whole comment text; the
 * object is not changed.  With C02 (the parser on such lines) this gives the
 * round trip. */
#include "common.h"
#include "writer_tok.h"
#include "defines.h"

#ifndef N
#define N 2
#endif
#ifndef VL
#define VL "2222"
#endif
#ifndef CB
#define CB "0000"
#endif
#ifndef CA
#define CA "0000"
#endif
#ifndef DELIMCH
#define DELIMCH '='
#endif
#ifndef COMMENTCH
#define COMMENTCH '#'
#endif
#define MAXE 4

static const char *GNAME[3] = { "_none_", "A", "B" };
static const char *KNAME[2] = { "x", "y" };
unsigned char in_g[MAXE], in_k[MAXE];
bool in_q[MAXE];

static char *mk_text(size_t len, bool newlines)
{
  if (len == 0) return NULL;
  char *t = malloc(len + 1);
  __CPROVER_assume(t != NULL);
  for (size_t i = 0; i < len; i++) {
    __CPROVER_assume(t[i] != 0);
    if (!newlines) __CPROVER_assume(t[i] != '\n');
  }
  t[len] = 0;
  return t;
}
static size_t slen(const char *s) { size_t n = 0; while (s[n]) n++; return n; }

int main(void)
{
  wt = (struct wt_ghost){0};
  wt.stat_isdir = 1;
  econf_file *ef = calloc(1, sizeof(econf_file));
  __CPROVER_assume(ef != NULL);
  ef->delimiter = DELIMCH; ef->comment = COMMENTCH;
  ef->file_entry = malloc(N * sizeof(struct file_entry));
  __CPROVER_assume(ef->file_entry != NULL);
  ef->alloc_length = ef->length = N;
  ef->groups = malloc(4 * sizeof(char *));
  __CPROVER_assume(ef->groups != NULL);
  char *gp[3] = { NULL, NULL, NULL };
  struct file_entry snap[MAXE];
  for (size_t i = 0; i < N; i++) {
    in_g[i] = nondet_uint32() % 3; in_k[i] = nondet_bool(); in_q[i] = nondet_bool();
    if (!gp[in_g[i]]) { gp[in_g[i]] = strdup(GNAME[in_g[i]]); ef->groups[ef->group_count++] = gp[in_g[i]]; }
    struct file_entry *e = &ef->file_entry[i];
    e->group = gp[in_g[i]];
    e->key = strdup(KNAME[in_k[i]]);
    e->value = (VL[i] == 'n') ? NULL : (VL[i] == '0') ? strdup("") : mk_text(VL[i] - '0', true);
    e->quotes = in_q[i];
    e->comment_before_key = mk_text(CB[i] - '0', true);
    e->comment_after_value = mk_text(CA[i] - '0', false);
    e->line_number = 0;
    snap[i] = *e;
  }
  ef->groups[ef->group_count] = NULL;
#ifdef KF_GROUPLESS_AFTER_SECTION
  /* known finding: a group-less entry anywhere behind a sectioned one */
  for (size_t i = 0; i < N; i++)
    for (size_t j = i + 1; j < N; j++)
      __CPROVER_assume(!(in_g[j] == 0 && in_g[i] != 0));
#endif

  econf_err r = econf_writeFile(ef, "/d", "f");
  __CPROVER_assert(r == ECONF_SUCCESS, "C07: writing into an existing directory succeeds");
  __CPROVER_assert(wt.fopen_calls == 1 && wt.open_now == 0, "C20: the output file is opened once and closed");

  /* walk the token log with the reference writer */
  int t = 0;
  int in_effect = 0;            /* section in effect in the output: group-less at the start */
  bool written[MAXE] = { false, false, false, false };
  for (size_t cnt = 0; cnt < N; cnt++) {
    /* skip separator newlines and an optional header */
    while (t < wt.n && wt_kind[t] == T_NL) t++;
    if (t < wt.n && wt_kind[t] == T_HDR) {
      __CPROVER_assert(wt_hsec[t] > 0, "C07: a section header is the section name in brackets");
      in_effect = wt_hsec[t];
      t++;
    }
    /* comment lines before the key */
    size_t cmt_bytes = 0, cmt_lines = 0;
    const char *cmt_first = NULL;
    while (t < wt.n && wt_kind[t] == T_CMT) {
      __CPROVER_assert(wt_c[t] == COMMENTCH, "C07: comment lines carry the object's comment character");
      if (!cmt_first) cmt_first = wt_s[t];
      cmt_bytes += wt_len[t]; cmt_lines++;
      t++;
    }
    /* the key line */
    __CPROVER_assert(t < wt.n && wt_kind[t] == T_KEY, "C07: every entry gets a key line");
    if (!(t < wt.n && wt_kind[t] == T_KEY)) break;
    /* which entry is it?  entries are identified by their key string object */
    int idx = -1;
    for (size_t i = 0; i < MAXE; i++) if (i < N && snap[i].key == wt_s[t]) idx = (int)i;
    __CPROVER_assert(idx >= 0 && !written[idx], "C07: each key line belongs to one entry, written once");
    if (idx < 0) break;
    written[idx] = true;
    __CPROVER_assert(wt_c[t] == DELIMCH, "C07: the key is followed by the object's delimiter");
    __CPROVER_assert(in_effect == in_g[idx], "C07: the key line is emitted while the section in effect is the entry's section");
    /* the comment block before it is this entry's, whole */
    if (snap[idx].comment_before_key) {
      size_t nl = 0, len = CB[idx] - '0';
      /* (the writer splits a private copy at newlines: the pieces plus the newlines make up the whole text) */
      __CPROVER_assert(cmt_lines >= 1 && cmt_bytes + (cmt_lines - 1) == len,
                       "C07/C14: the whole comment before the key is written (no truncation)");
    } else
      __CPROVER_assert(cmt_lines == 0, "C07: no comment line is invented");
    t++;
    /* the value */
    if (snap[idx].value != NULL) {
      __CPROVER_assert(t < wt.n && wt_kind[t] == (in_q[idx] ? T_QVAL : T_VAL) && wt_s[t] == snap[idx].value,
                       "C07/C14: the value is written whole, in quotes iff it was read quoted");
      t++;
    } else
      __CPROVER_assert(!(t < wt.n && (wt_kind[t] == T_QVAL || wt_kind[t] == T_VAL)), "C07: an absent value is not written");
    /* trailing comment */
    if (snap[idx].comment_after_value) {
      __CPROVER_assert(t < wt.n && wt_kind[t] == T_ACMT && wt_c[t] == COMMENTCH && wt_len[t] == (size_t)(CA[idx] - '0'),
                       "C07/C14: the whole trailing comment is written with the object's comment character");
      t++;
    }
    __CPROVER_assert(t < wt.n && wt_kind[t] == T_NL, "C07: every entry ends its line");
    t++;
  }
  while (t < wt.n && wt_kind[t] == T_NL) t++;
  __CPROVER_assert(t == wt.n, "C07: nothing else is written");
  for (size_t i = 0; i < N; i++)
    __CPROVER_assert(written[i], "C07: every entry is written");
  /* C10: writing is a query */
  __CPROVER_assert(ef->length == N && ef->alloc_length == N, "C10: writing does not change the object");
  for (size_t i = 0; i < N; i++)
    __CPROVER_assert(ef->file_entry[i].key == snap[i].key && ef->file_entry[i].value == snap[i].value &&
                     ef->file_entry[i].group == snap[i].group && ef->file_entry[i].quotes == snap[i].quotes &&
                     ef->file_entry[i].comment_before_key == snap[i].comment_before_key &&
                     ef->file_entry[i].comment_after_value == snap[i].comment_after_value,
                     "C10: writing changes no entry");
  for (size_t i = 0; i < N; i++) {
    if (snap[i].comment_before_key)
      __CPROVER_assert(slen(snap[i].comment_before_key) == (size_t)(CB[i] - '0'), "C10: writing does not cut the stored comment");
    if (snap[i].comment_after_value)
      __CPROVER_assert(slen(snap[i].comment_after_value) == (size_t)(CA[i] - '0'), "C10: writing does not cut the stored trailing comment");
  }
  VACUITY(r == ECONF_SUCCESS, "successful write reachable");
  VACUITY(in_effect != 0, "section header reachable");
  VACUITY_END();
  return 0;
}
