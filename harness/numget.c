/* A numeric getter of lib/keyfile.c under contract (contracts/keyfile_num.h).
 * -DGETTER=<fn> -DRT=<result type> -DKIND_INT or -DKIND_FP.
 * The entry array has symbolic length; only entry[num] is initialised. */
#include "common.h"
#include "numtext.h"
#include "keyfile_num.h"

/* literal under test, for the native replay: sign and 128-bit magnitude */
bool in_lit_neg;
uint64_t in_lit_mag_hi, in_lit_mag_lo;
bool in_absent;
int in_fp_case;

int main(void)
{
  g_nt = (struct numtext_ghost){0}; /* dfcc starts statics in an arbitrary state */
  g_nt.err = nondet_int();          /* errno left behind by whatever ran before: arbitrary */
  econf_file kf;
  size_t num = nondet_size_t();
  kf.alloc_length = nondet_size_t();
  kf.length = nondet_size_t();
  __CPROVER_assume(kf.alloc_length >= 1 && kf.alloc_length <= MAX_ENTRIES);
  __CPROVER_assume(kf.length <= kf.alloc_length && num < kf.length);
  kf.file_entry = mk_entries(kf.alloc_length);
  in_absent = nondet_bool();
  if (in_absent) {
    kf.file_entry[num].value = NULL;
  } else {
#ifdef KIND_INT
    kf.file_entry[num].value = numtext_new(TAG_INT);
    in_lit_neg = nondet_bool();
    in_lit_mag_hi = nondet_uint64();
    in_lit_mag_lo = nondet_uint64();
    __CPROVER_assume(in_lit_mag_hi <= 2); /* |value| < 3 * 2^64 */
    __int128 mag = ((__int128)in_lit_mag_hi << 64) | in_lit_mag_lo;
    g_tag_int = in_lit_neg ? -mag : mag;
#else
    in_fp_case = nondet_bool();
    if (in_fp_case) {
      /* an arbitrary decimal literal */
      kf.file_entry[num].value = numtext_new(TAG_DEC);
      g_round_float = nondet_float();
      g_round_double = nondet_double();
      g_errno_of_literal = nondet_bool() ? 34 /* ERANGE */ : 0;
    } else {
      /* text printed by "%.*g" */
      kf.file_entry[num].value = numtext_new(TAG_FP);
      g_tag_fp = nondet_double();
      g_tag_prec = nondet_int();
    }
#endif
  }
  RT out;
  econf_err r = GETTER(kf, num, &out);
  VACUITY(in_absent, "absent value reachable");
#ifdef KIND_INT
  VACUITY(!in_absent && r == ECONF_SUCCESS, "literal accepted reachable");
  VACUITY(!in_absent && r != ECONF_SUCCESS, "literal refused reachable");
#else
  VACUITY(!in_absent && in_fp_case && r == ECONF_SUCCESS, "literal accepted reachable");
  VACUITY(!in_absent && !in_fp_case && r == ECONF_SUCCESS, "printed text accepted reachable");
#endif
  VACUITY_END();
  return 0;
}
