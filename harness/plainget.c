/* The plain getters of lib/keyfile.c under contract (contracts/plainget.h):
 * an entry array of any size in which only entry `num` is set up, texts of
 * symbolic size (never read). */
#include "common.h"
#include "plainget.h"
int main(void)
{
  sd_n = 0; sd_src0 = sd_src1 = NULL; sd_res0 = sd_res1 = NULL;
  econf_file kf;
  kf.length = nondet_size_t(); kf.alloc_length = nondet_size_t();
  __CPROVER_assume(kf.alloc_length >= 1 && kf.length <= kf.alloc_length && kf.alloc_length <= MAX_ENTRIES);
  kf.file_entry = mk_entries(kf.alloc_length);
  size_t num = nondet_size_t(); __CPROVER_assume(num < kf.alloc_length);
  struct file_entry *e = &kf.file_entry[num];
  e->value = nondet_bool() ? NULL : mk_string(MAX_ENTRIES);
  e->comment_before_key = nondet_bool() ? NULL : mk_string(MAX_ENTRIES);
  e->comment_after_value = nondet_bool() ? NULL : mk_string(MAX_ENTRIES);
  e->line_number = nondet_uint64();
  kf.path = nondet_bool() ? NULL : mk_string(MAX_ENTRIES);
  struct file_entry before = *e;
  char *o1 = nondet_ptr(), *o2 = nondet_ptr(); uint64_t ln = nondet_uint64();
#if defined(FN_GETSTRING)
  econf_err r = getStringValueNum(kf, num, &o1);
  VACUITY(o1 != NULL, "copy reachable"); VACUITY(o1 == NULL, "absent reachable");
#elif defined(FN_GETCOMMENTS)
  econf_err r = getCommentsNum(kf, num, &o1, &o2);
  VACUITY(o1 != NULL && o2 != NULL, "both reachable"); VACUITY(o1 == NULL && o2 != NULL, "only second reachable");
#elif defined(FN_GETLINENR)
  econf_err r = getLineNrNum(kf, num, &ln);
  VACUITY(ln == 7, "line reachable");
#else
  econf_err r = getPath(kf, &o1);
  VACUITY(o1 != NULL, "copy reachable"); VACUITY(o1 == NULL, "absent reachable");
#endif
  /* C10, seen from the caller: the entry is what it was */
  __CPROVER_assert(e->value == before.value && e->comment_before_key == before.comment_before_key &&
                   e->comment_after_value == before.comment_after_value && e->line_number == before.line_number &&
                   e->key == before.key && e->group == before.group, "C10 entry unchanged by a plain getter");
  VACUITY_END();
  return 0;
}
