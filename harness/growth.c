/* key_file_append / getFromGroupList under contract (contracts/growth.h). */
#include "common.h"
#include "growth.h"
struct gr_ghost gr;
int main(void)
{
  gr = (struct gr_ghost){0};
#ifdef PART_APPEND
  econf_file *kf = NULL;
  if (nondet_bool()) {
    kf = malloc(sizeof(econf_file)); __CPROVER_assume(kf != NULL);
    kf->length = nondet_size_t(); kf->alloc_length = nondet_size_t();
    __CPROVER_assume(kf->length <= kf->alloc_length && kf->alloc_length <= MAX_ENTRIES);
    kf->file_entry = kf->alloc_length ? mk_entries(kf->alloc_length) : NULL;
  }
  econf_err r = key_file_append(kf);
  VACUITY(kf != NULL && gr.init_calls == 1, "growing reachable");
  VACUITY(kf != NULL && gr.init_calls == 0, "spare slot reachable");
  VACUITY(kf == NULL, "missing object reachable");
#endif
#ifdef PART_NEWKF
  econf_file *slot = NULL;
  econf_err r = econf_newKeyFile(&slot, nondet_char(), nondet_char());
  VACUITY(r == ECONF_SUCCESS, "construction reachable");
#endif
#ifdef PART_NEWINI
  econf_file *slot = NULL;
  econf_err r = econf_newIniFile(&slot);
  VACUITY(r == ECONF_SUCCESS, "construction reachable");
#endif
#ifdef PART_GROUPLIST
  econf_file *kf = malloc(sizeof(econf_file)); __CPROVER_assume(kf != NULL);
  kf->group_count = nondet_int();
  kf->groups = nondet_ptr();
  char *name = mk_string(1 << 16);
  char *g = getFromGroupList(kf, name);
  VACUITY(kf->group_count > 5, "long section list reachable");
#endif
  VACUITY_END();
  return 0;
}
