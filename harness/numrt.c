/* C08 round-trip lemma over the two contracts: both the setter and the getter
 * are REPLACED by their contracts (each is enforced on the real code by its
 * own job); the lemma is that the contracts compose to get(set(v)) == v.
 * -DSETTER -DGETTER -DVT -DKIND_INT|KIND_FP [-DSIGNF=__CPROVER_signf] */
#include "common.h"
#include "numtext.h"
#include "keyfile_num.h"

VT in_v;
int main(void)
{
  g_nt = (struct numtext_ghost){0}; /* dfcc starts statics in an arbitrary state */
  g_nt.err = nondet_int();          /* errno left behind by whatever ran before: arbitrary */
  econf_file *ef = malloc(sizeof(econf_file));
  __CPROVER_assume(ef != NULL);
  size_t num = nondet_size_t();
  ef->alloc_length = nondet_size_t();
  ef->length = nondet_size_t();
  __CPROVER_assume(ef->alloc_length >= 1 && ef->alloc_length <= MAX_ENTRIES);
  __CPROVER_assume(ef->length <= ef->alloc_length && num < ef->length);
  ef->file_entry = mk_entries(ef->alloc_length);
  ef->file_entry[num].value = NULL;
  in_v = NONDET();
  econf_err r1 = SETTER(ef, num, &in_v);
  VT out;
  econf_err r2 = GETTER(*ef, num, &out);
  __CPROVER_assert(r1 == ECONF_SUCCESS && r2 == ECONF_SUCCESS, "C08: set and get succeed for every value");
#ifdef KIND_INT
  __CPROVER_assert(out == in_v, "C08: get(set(v)) == v");
#else
  __CPROVER_assert(SAME_FP(out, in_v, SIGNF, SIGNF), "C08: get(set(v)) == v bit for bit (NaN as NaN)");
#endif
  VACUITY_END();
  return 0;
}
