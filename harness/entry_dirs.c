/* econf_readDirsWithCallback (-DFN=1) / econf_readDirs (-DFN=2) under
 * contract (contracts/entry_dirs.h).  Directory arguments NULL or any string
 * (the copies are abstract: no callee reads them); every other argument any
 * pointer; the process-wide drop-in list whatever it is. */
#include "common.h"
#include "entry_dirs.h"

struct rc_ghost rc;
static bool cb_stub(const char *f, const void *d) { (void)f; (void)d; return true; }
econf_file *nondet_obj(void);

int main(void)
{
  rc = (struct rc_ghost){0};    /* dfcc starts every static object in an arbitrary state */
  sd_n = 0; sd_src0 = sd_src1 = NULL; sd_res0 = sd_res1 = NULL;
  rc.dirs = verif_process_conf_dirs(); rc.ndirs = verif_process_conf_count();
  rc.dist = nondet_bool() ? NULL : mk_string(8);
  rc.etc = nondet_bool() ? NULL : mk_string(8);
  rc.name = nondet_ptr(); rc.suffix = nondet_ptr(); rc.delim = nondet_ptr(); rc.comment = nondet_ptr();
  econf_file *slot = nondet_obj();
#if FN == 1
  rc.cb = nondet_bool() ? cb_stub : NULL; rc.cb_data = nondet_ptr();
  econf_err r = econf_readDirsWithCallback(&slot, rc.dist, rc.etc, rc.name, rc.suffix, rc.delim, rc.comment, rc.cb, rc.cb_data);
#else
  rc.cb = NULL; rc.cb_data = NULL;
  econf_err r = econf_readDirs(&slot, rc.dist, rc.etc, rc.name, rc.suffix, rc.delim, rc.comment);
#endif
  VACUITY(r == ECONF_SUCCESS && rc.merge_calls == 1, "merged read reachable");
  VACUITY(r == ECONF_WRONG_OWNER && rc.merge_calls == 0, "refused file reachable");
  VACUITY(rc.hist_ret == ECONF_SUCCESS && r != ECONF_SUCCESS, "failing merge reachable");
  VACUITY(r == ECONF_NOMEM && rc.obj == NULL, "allocation failure reachable");
  VACUITY(rc.dist == NULL && rc.obj != NULL, "missing distribution directory reachable");
  VACUITY_END();
  return 0;
}
