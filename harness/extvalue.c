/* econf_getExtValue / econf_getPath / econf_freeExtValue (real code) on an
 * entry whose value has a concrete length (-DVLEN) and symbolic bytes out of
 * printable characters, blank, tab and newline (C17, C14, C10, C20).  BUFSIZ
 * is scaled to 4: the value must come back whole. */
#include "common.h"
#include "libeconf_ext.h"
#include "helpers.h"

/* -DPAT: the SHAPE of the value, one code per byte: x = any printable byte
 * that is neither blank nor a quote (symbolic), q = '"', . = blank, t = tab,
 * n = newline.  The shape is concrete per job: with symbolic newline/blank
 * positions every item count and allocation size is symbolic and the job
 * does not fit in memory. */
#ifndef PAT
#define PAT "x.nx."
#endif
#define VLEN (sizeof(PAT) - 1)
#define MAXITEMS (VLEN + 2)
char in_value[sizeof(PAT)];
bool in_has_value, in_has_path, in_has_cb, in_has_ca;

static bool is_ws(char c) { return c == ' ' || c == '\t' || c == '\n'; }
/* control flow of the reference follows the concrete SHAPE, not the symbolic bytes */
#define WS_AT(i) (PAT[i] == '.' || PAT[i] == 't' || PAT[i] == 'n')
#define NL_AT(i) (PAT[i] == 'n')
#define Q_AT(i) (PAT[i] == 'q')

int main(void)
{
  econf_file *ef = calloc(1, sizeof(econf_file));
  __CPROVER_assume(ef != NULL);
  ef->file_entry = malloc(sizeof(struct file_entry));
  __CPROVER_assume(ef->file_entry != NULL);
  ef->length = ef->alloc_length = 1;
  char *grp = strdup("_none_");
  ef->groups = malloc(2 * sizeof(char *)); __CPROVER_assume(ef->groups != NULL);
  ef->groups[0] = grp; ef->groups[1] = NULL; ef->group_count = 1;
  in_has_value = nondet_bool(); in_has_path = nondet_bool(); in_has_cb = nondet_bool(); in_has_ca = nondet_bool();
  char *val = NULL;
  if (in_has_value) {
    val = malloc(VLEN + 1); __CPROVER_assume(val != NULL);
    for (size_t i = 0; i < VLEN; i++) {
      if (PAT[i] == 'x') __CPROVER_assume(val[i] > 0x20 && val[i] < 0x7f && val[i] != '"');
      else val[i] = PAT[i] == 'q' ? '"' : PAT[i] == '.' ? ' ' : PAT[i] == 't' ? '\t' : '\n';
      in_value[i] = val[i];
    }
    val[VLEN] = 0;
  }
  struct file_entry *e = &ef->file_entry[0];
  e->group = grp; e->key = strdup("k"); e->value = val;
  e->comment_before_key = in_has_cb ? strdup("cb") : NULL;
  e->comment_after_value = in_has_ca ? strdup("ca") : NULL;
  e->line_number = nondet_uint64(); e->quotes = nondet_bool();
  const uint64_t ln = e->line_number;
  ef->path = in_has_path ? strdup("/p/f") : NULL;

  bool multi = false;
  econf_ext_value *x = NULL;
  econf_err r = econf_getExtValue(ef, NULL, "k", &x);
  __CPROVER_assert(r == ECONF_SUCCESS && x != NULL, "C17: the extended value of an existing key is returned");
  if (r == ECONF_SUCCESS && x) {
    __CPROVER_assert(x->line_number == ln, "C17: the entry's line number is reported");
    __CPROVER_assert(in_has_path ? (x->file && strcmp(x->file, "/p/f") == 0 && x->file != ef->path) : x->file == NULL,
                     "C17: the (absolute) path of the file is reported as a copy");
    __CPROVER_assert(in_has_cb ? (x->comment_before_key && strcmp(x->comment_before_key, "cb") == 0) : x->comment_before_key == NULL,
                     "C17: the comment lines preceding the entry are reported");
    __CPROVER_assert(in_has_ca ? (x->comment_after_value && strcmp(x->comment_after_value, "ca") == 0) : x->comment_after_value == NULL,
                     "C17: the trailing comment is reported");
    __CPROVER_assert(x->values != NULL, "C17: the value list exists");
    if (x->values) {
      if (!in_has_value)
        __CPROVER_assert(x->values[0] == NULL, "C17: an absent value gives an empty list");
      else {
        /* reference: trim the whole text, then one item if it starts with a quote, else split at
         * newlines with every item blank-trimmed */
        size_t b = 0, end = VLEN;
        while (b < end && WS_AT(b)) b++;
        while (end > b && WS_AT(end - 1)) end--;
        size_t item = 0, p = b;
        bool ok = true;
        if (b < end && Q_AT(b)) {
          const char *g = x->values[0];
          ok = g != NULL;
          for (size_t k = 0; ok && b + k < end; k++) if (g[k] != in_value[b + k]) ok = false;
          if (ok) ok = g[end - b] == 0 && x->values[1] == NULL;
          __CPROVER_assert(ok, "C17/C14: a value starting with a quote is one item, whole");
        } else {
          for (size_t it = 0; it < MAXITEMS && ok; it++) {
            /* item [p, q): up to the next newline or the end */
            size_t q = p;
            while (q < end && !NL_AT(q)) q++;
            size_t s0 = p, s1 = q;
            while (s0 < s1 && WS_AT(s0)) s0++;
            while (s1 > s0 && WS_AT(s1 - 1)) s1--;
            const char *g = x->values[item];
            ok = g != NULL;
            for (size_t k = 0; ok && s0 + k < s1; k++) if (g[k] != in_value[s0 + k]) ok = false;
            if (ok) ok = g[s1 - s0] == 0;
            item++;
            if (q >= end) break;
            p = q + 1;
          }
          __CPROVER_assert(ok && x->values[item] == NULL, "C17/C14: the value is split into blank-trimmed lines, nothing is cut off");
        }
      }
    }
    multi = x->values && x->values[0] && x->values[1];
    econf_freeExtValue(x);     /* C20: the documented destructor accepts it (CBMC checks the frees) */
  }
  /* C10 */
  __CPROVER_assert(ef->file_entry[0].value == val && ef->length == 1, "C10: the query does not replace the stored value");
  if (val) for (size_t i = 0; i <= VLEN; i++) __CPROVER_assert(val[i] == (i < VLEN ? in_value[i] : 0), "C10: the query does not edit the stored value");
  /* econf_getPath */
  char *pth = econf_getPath(ef);
  __CPROVER_assert(pth != NULL && strcmp(pth, in_has_path ? "/p/f" : "") == 0 && pth != ef->path,
                   "C17: the path query returns a copy of the path, or the empty string for an object without file");
  free(pth);
  econf_freeExtValue(NULL);
#ifdef MULTI
  VACUITY(multi, "multi-line value reachable");
#endif
  VACUITY_END();
  return 0;
}
