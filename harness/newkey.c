/* new_key (static, lib/helpers.c) under contract (contracts/setkey.h,
 * -DPART_NEWKEY): reached through the forwarding accessor verif_new_key.
 * The private copy of the section name is released on every path
 * (--memory-leak-check: the harness itself allocates nothing on the heap). */
#include "common.h"
#include "setkey.h"
struct sk_ghost sk;
econf_err nondet_code(void);
static econf_file kf0;
static char grp[4];
int main(void)
{
  sk = (struct sk_ghost){0};
  sd_n = 0; sd_src0 = sd_src1 = NULL; sd_res0 = sd_res1 = NULL;
  kf0.length = nondet_size_t(); kf0.alloc_length = nondet_size_t();
  __CPROVER_assume(kf0.length <= kf0.alloc_length && kf0.alloc_length <= MAX_ENTRIES);
  kf0.file_entry = nondet_ptr();
  econf_file *kf = nondet_bool() ? &kf0 : NULL;
  sk.kf = &kf0;
  grp[0] = nondet_char(); grp[1] = nondet_char(); grp[2] = nondet_char(); grp[3] = 0;
  const char *group = nondet_bool() ? grp : NULL;
  const char *key = nondet_ptr();
  sk.sg_ret = nondet_code(); __CPROVER_assume(IS_CODE(sk.sg_ret));
  sk.sk_ret = nondet_code(); __CPROVER_assume(IS_CODE(sk.sk_ret));
  econf_err r = verif_new_key(kf, group, key);
  VACUITY(kf == NULL, "missing object reachable");
  VACUITY(kf != NULL && key == NULL, "missing key reachable");
  VACUITY(sk.sk_calls == 1 && group != NULL && grp[0] != 0, "named section reachable");
  VACUITY(sk.sk_calls == 1 && group != NULL && grp[0] == 0, "empty section name reachable");
  VACUITY(sk.sk_calls == 1 && group == NULL, "no section reachable");
  VACUITY(sk.sg_calls == 1 && sk.sk_calls == 0, "failing section setter reachable");
  VACUITY_END();
  return 0;
}
