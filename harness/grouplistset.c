/* setGroupList under contract (contracts/grouplistset.h): a section list of
 * any length (0 .. 2^20-1 names), name of symbolic size, never read. */
#include "common.h"
#include "grouplistset.h"
struct sl_ghost sl;
int main(void)
{
  sl = (struct sl_ghost){0};
  sd_n = 0; sd_src0 = sd_src1 = NULL; sd_res0 = sd_res1 = NULL;
  econf_file *kf = malloc(sizeof(econf_file)); __CPROVER_assume(kf != NULL);
  kf->group_count = nondet_int();
  __CPROVER_assume(kf->group_count >= 0 && kf->group_count < (1 << 20));
  if (kf->group_count == 0 && nondet_bool()) kf->groups = NULL;
  else { kf->groups = malloc(((size_t)kf->group_count + 1) * sizeof(char *)); __CPROVER_assume(kf->groups != NULL); }
  sl.kf = kf;
  sl.gf_ret = nondet_ptr();
  char *name = mk_string(MAX_ENTRIES);
  char *g = setGroupList(kf, name);
  VACUITY(sl.gf_ret != NULL, "known name reachable");
  VACUITY(sl.gf_ret == NULL && kf->group_count == 1, "first name reachable");
  VACUITY(sl.gf_ret == NULL && kf->group_count > 5, "long list reachable");
  VACUITY_END();
  return 0;
}
