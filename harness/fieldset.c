/* setKey (-DFN_SETKEY) / setGroup (-DFN_SETGROUP) of lib/keyfile.c under
 * contract (contracts/setkey.h, -DPART_FIELDSET).  Static harness objects only
 * where possible: setKey runs with --memory-leak-check. */
#include "common.h"
#include "setkey.h"
struct sk_ghost sk;
static econf_file kf0;
int main(void)
{
  sk = (struct sk_ghost){0};
  sd_n = 0; sd_src0 = sd_src1 = NULL; sd_res0 = sd_res1 = NULL;
  kf0.length = nondet_size_t(); kf0.alloc_length = nondet_size_t();
  __CPROVER_assume(kf0.alloc_length >= 1 && kf0.length <= kf0.alloc_length && kf0.alloc_length <= MAX_ENTRIES);
  kf0.file_entry = mk_entries(kf0.alloc_length);
  size_t num = nondet_size_t(); __CPROVER_assume(num < kf0.alloc_length);
  econf_file *kf = nondet_bool() ? &kf0 : NULL;
  static char text[4];
  text[0] = nondet_char(); text[1] = nondet_char(); text[2] = nondet_char(); text[3] = 0;
  const char *value = nondet_bool() ? text : NULL;
#ifdef FN_SETKEY
  /* previous key: absent or some heap text owned by the entry */
  kf0.file_entry[num].key = nondet_bool() ? NULL : mk_string(4);
  char *oldkey = kf0.file_entry[num].key;
  econf_err r = setKey(kf, num, value);
  VACUITY(r == ECONF_SUCCESS && oldkey != NULL, "replace reachable");
  VACUITY(r == ECONF_SUCCESS && oldkey == NULL, "first key reachable");
  if (r == ECONF_SUCCESS) free(kf0.file_entry[num].key); else free(oldkey);
  free(kf0.file_entry);
#else
  sk.gl_ret = nondet_ptr();
  econf_err r = setGroup(kf, num, value);
  VACUITY(r == ECONF_SUCCESS, "success reachable");
  VACUITY(r == ECONF_NOMEM, "list failure reachable");
#endif
  VACUITY(r == ECONF_ERROR, "refusal reachable");
  VACUITY_END();
  return 0;
}
