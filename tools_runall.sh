#!/bin/bash
# run every claimed property's quick (or $1) check in turn; summary on stdout
tier=${1:-quick}
cd "$(dirname "$0")"
export VERIF_RESULT_CACHE=$(mktemp -d /var/tmp/verif.rescache.XXXXXX)
trap 'rm -rf "$VERIF_RESULT_CACHE"' EXIT
for p in $(python3 -c "import json;print(' '.join(c['property_id'] for c in json.load(open('MANIFEST.json'))['checks']))"); do
  s=$(date +%s)
  out=$(./check $p --tier $tier 2>&1 | grep -v "^WARNING")
  rc=$?
  echo "$p rc=$(echo "$out" | grep -c '^VIOLATION') $(echo "$out" | tail -1) [$(( $(date +%s) - s ))s]"
  echo "$out" | grep "^VIOLATION\|^UNDECIDED" | head -5 | cut -c1-220
done
