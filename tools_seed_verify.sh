#!/bin/bash
# tools_seed_verify.sh <diff> <demo.c|demo.sh> : confirm a seeded change in a scratch worktree of /repo:
#  tests pass with the change; demo fails with it and passes without it.
set -u
DIFF=$(readlink -f "$1"); DEMO=$(readlink -f "$2")
W=/tmp/seedverify.$$
git -C /repo worktree add --detach "$W" HEAD >/dev/null 2>&1 || exit 3
trap 'git -C /repo worktree remove --force "$W" >/dev/null 2>&1; rm -rf "$W" /tmp/seedverify.$$.*' EXIT
build() { (cd "$W" && cmake -G Ninja -B _build -S . >/dev/null 2>&1 && cmake --build _build >/dev/null 2>&1); }
demo() {
  local exe=/tmp/seedverify.$$.demo
  if [[ "$DEMO" == *.sh ]]; then (cd "$W" && W="$W" bash "$DEMO" >/tmp/seedverify.$$.out 2>&1); return $?; fi
  gcc -Wall -Wno-deprecated-declarations -D_GNU_SOURCE -I"$W/include" -I"$W/lib" "$DEMO" -L"$W/_build/lib" -Wl,-rpath,"$W/_build/lib" -leconf -o $exe >/tmp/seedverify.$$.cc 2>&1 || { echo "demo does not compile"; cat /tmp/seedverify.$$.cc | head; return 99; }
  local d=$(mktemp -d /tmp/seedverify.$$.XXXX); (cd $d && W="$W" $exe >/tmp/seedverify.$$.out 2>&1); local rc=$?; rm -rf $d; return $rc
}
build || { echo "clean build failed"; exit 3; }
demo; RC_CLEAN=$?
(cd "$W" && git apply "$DIFF") || { echo "APPLY-FAILED"; exit 4; }
build || { echo "BUILD-FAILED with change"; exit 5; }
TESTS=$(cd "$W" && cmake --build _build --target check 2>&1 | grep -E "tests passed|tests failed" | tail -1)
demo; RC_MUT=$?
echo "tests_with_change: $TESTS"
echo "demo_rc_clean=$RC_CLEAN demo_rc_mutated=$RC_MUT"
[[ "$TESTS" == *"100% tests passed"* && $RC_CLEAN -eq 0 && $RC_MUT -ne 0 ]] && echo CONFIRMED || echo NOT-CONFIRMED
