#!/usr/bin/env python3
"""tools_seeded.py [--tier quick|thorough] [id-regex]
Run the registered checks against every seeded change under /verif/seeded:
apply the patch to /repo, run ./check <property> for the property the change
breaks (meta.json "property", plus "also" if listed), undo the patch.
Writes seeded/RESULTS.md."""
import json, os, re, subprocess, sys, time
HERE = os.path.dirname(os.path.abspath(__file__))
tier = "quick"
args = sys.argv[1:]
if args and args[0] == "--tier":
    tier = args[1]; args = args[2:]
pat = args[0] if args else "."
rows = []
for d in sorted(os.listdir(os.path.join(HERE, "seeded"))):
    full = os.path.join(HERE, "seeded", d)
    if not os.path.isdir(full) or not re.search(pat, d):
        continue
    meta = json.load(open(os.path.join(full, "meta.json")))
    props = [meta["property"]] + meta.get("also", [])
    assert subprocess.run(["git", "-C", "/repo", "status", "--porcelain", "--untracked-files=no"], capture_output=True).stdout == b"", "repo dirty"
    r = subprocess.run(["git", "-C", "/repo", "apply", os.path.join(full, "patch.diff")], capture_output=True)
    if r.returncode != 0:
        rows.append((d, props[0], "PATCH-DOES-NOT-APPLY", ""))
        continue
    try:
        for p in props:
            t0 = time.time()
            r = subprocess.run([os.path.join(HERE, "check"), p, "--tier", tier, "--no-evidence"], capture_output=True, text=True, cwd=HERE)
            vio = [l for l in r.stdout.splitlines() if l.startswith("VIOLATION")]
            und = [l for l in r.stdout.splitlines() if l.startswith("UNDECIDED")]
            jobs = sorted({l.split()[1].rstrip(":") for l in r.stdout.splitlines() if l.strip().startswith("job ")})
            status = "CAUGHT" if r.returncode == 1 and vio else ("UNDECIDED" if r.returncode == 2 else "MISSED")
            rows.append((d, p, status, "%d violation line(s); obligations: %s; %.0fs%s" % (
                len(vio), ", ".join(jobs)[:200], time.time() - t0, ("; " + und[0][:150]) if und else "")))
            print(rows[-1], flush=True)
    finally:
        subprocess.run(["git", "-C", "/repo", "checkout", "--", "."])
with open(os.path.join(HERE, "seeded", "RESULTS.md"), "a") as f:
    f.write("\n## run %s tier=%s filter=%s\n\n| seeded change | property | result | detail |\n|---|---|---|---|\n" % (time.strftime("%Y-%m-%d %H:%M"), tier, pat))
    for r in rows:
        f.write("| %s | %s | %s | %s |\n" % r)
