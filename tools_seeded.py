#!/usr/bin/env python3
"""tools_seeded.py [--tier quick|thorough] [--inplace] [-j N] [id-regex]
Run the registered checks against every seeded change under /verif/seeded.

Default: for each change a scratch worktree of /repo HEAD is created under
/var/tmp, the patch is applied THERE, and ./check is pointed at it through
VERIF_REPO (the checks rebuild everything from that tree; nothing else
differs), N changes at a time; the worktree is removed afterwards.
--inplace: apply the patch to /repo itself, run, and `git checkout -- .`
afterwards (one at a time).  Appends a table to seeded/RESULTS.md."""
import json, os, re, subprocess, sys, time, shutil
from concurrent.futures import ThreadPoolExecutor
HERE = os.path.dirname(os.path.abspath(__file__))
tier, inplace, par = "quick", False, 3
args = sys.argv[1:]
while args and args[0].startswith("-"):
    if args[0] == "--tier":
        tier = args[1]; args = args[2:]
    elif args[0] == "--inplace":
        inplace = True; args = args[1:]
    elif args[0] == "-j":
        par = int(args[1]); args = args[2:]
    else:
        break
pat = args[0] if args else "."
ids = [d for d in sorted(os.listdir(os.path.join(HERE, "seeded")))
       if os.path.isdir(os.path.join(HERE, "seeded", d)) and re.search(pat, d)]


def run_checks(props, env):
    rows = []
    for p in props:
        t0 = time.time()
        r = subprocess.run([os.path.join(HERE, "check"), p, "--tier", tier, "--no-evidence",
                            "--jobs", "16" if inplace else "8"],
                           capture_output=True, text=True, cwd=HERE, env=env)
        vio = [l for l in r.stdout.splitlines() if l.startswith("VIOLATION")]
        und = [l for l in r.stdout.splitlines() if l.startswith("UNDECIDED")]
        jobs = sorted({l.split()[1].rstrip(":") for l in r.stdout.splitlines() if l.strip().startswith("job ")})
        status = "CAUGHT" if r.returncode == 1 and vio else ("UNDECIDED" if r.returncode == 2 else "MISSED")
        rows.append((p, status, "%d violation line(s); obligations: %s; %.0fs%s" % (
            len(vio), ", ".join(jobs)[:200], time.time() - t0, ("; " + und[0][:150]) if und else "")))
    return rows


def one(d):
    full = os.path.join(HERE, "seeded", d)
    meta = json.load(open(os.path.join(full, "meta.json")))
    props = [meta["property"]] + meta.get("also", [])
    if inplace:
        st = subprocess.run(["git", "-C", "/repo", "status", "--porcelain", "--untracked-files=no"], capture_output=True)
        assert st.stdout == b"", "repo dirty"
        if subprocess.run(["git", "-C", "/repo", "apply", os.path.join(full, "patch.diff")], capture_output=True).returncode != 0:
            return [(d, props[0], "PATCH-DOES-NOT-APPLY", "")]
        try:
            return [(d,) + r for r in run_checks(props, dict(os.environ))]
        finally:
            subprocess.run(["git", "-C", "/repo", "checkout", "--", "."])
    w = "/var/tmp/verif.seeded.%d.%s" % (os.getpid(), d)
    subprocess.run(["git", "-C", "/repo", "worktree", "add", "--detach", w, "HEAD"], capture_output=True)
    try:
        if subprocess.run(["git", "-C", w, "apply", os.path.join(full, "patch.diff")], capture_output=True).returncode != 0:
            return [(d, props[0], "PATCH-DOES-NOT-APPLY", "")]
        env = dict(os.environ, VERIF_REPO=w)
        return [(d,) + r for r in run_checks(props, env)]
    finally:
        subprocess.run(["git", "-C", "/repo", "worktree", "remove", "--force", w], capture_output=True)
        shutil.rmtree(w, ignore_errors=True)


rows = []
with ThreadPoolExecutor(1 if inplace else par) as ex:
    for rs in ex.map(one, ids):
        for r in rs:
            print(r, flush=True)
            rows.append(r)
head = subprocess.run(["git", "-C", "/repo", "rev-parse", "--short", "HEAD"], capture_output=True, text=True).stdout.strip()
with open(os.path.join(HERE, "seeded", "RESULTS.md"), "a") as f:
    f.write("\n## run %s tier=%s filter=%s mode=%s /repo HEAD=%s\n\n| seeded change | property | result | detail |\n|---|---|---|---|\n"
            % (time.strftime("%Y-%m-%d %H:%M"), tier, pat, "inplace" if inplace else "worktree", head))
    for r in rows:
        f.write("| %s | %s | %s | %s |\n" % r)
