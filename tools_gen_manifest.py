#!/usr/bin/env python3
"""Regenerate MANIFEST.json from vlib/registry.py (PROPS + jobs)."""
import json, os, sys
HERE = os.path.dirname(os.path.abspath(__file__))
sys.path.insert(0, HERE)
from vlib import registry
jobs = registry.jobs()
claimed = sorted(p for p in registry.PROPS if any(p in j.props for j in jobs) and not registry.PROPS[p].get("na"))
allp = [json.loads(l)["id"] for l in open(os.path.join(HERE, "properties.jsonl"))]
checks = []
for p in claimed:
    m = registry.PROPS[p]
    checks.append(dict(
        property_id=p,
        quick_cmd="./check %s --tier quick" % p,
        thorough_cmd="./check %s --tier thorough" % p,
        evidence_file="/verif/evidence/%s.json" % p,
        replay_cmd_template="./check --replay {path}",
        engine="cbmc-dfcc",
        level_claimed=dict(category=m["category"], text=m["text"], design_ref="DESIGN.md section " + m["design_ref"]),
        level_note=m["note"],
        technique=m["technique"]))
na = []
for p in allp:
    if p not in claimed:
        reason = registry.NOT_APPLICABLE.get(p, "no contract obligations are registered for this property yet (see DESIGN.md section 8)")
        na.append(dict(property_id=p, reason=reason))
man = dict(
    version=1,
    setup_cmd="true",
    hooks=dict(guard="LIBECONF_VERIF", enable="none needed: contracts and loop clauses are side-car files under /verif/contracts, injected into scratch copies of /repo sources on every run",
               baseline_off_cmd="cmake -G Ninja -B /repo/_build -S /repo && cmake --build /repo/_build && cmake --build /repo/_build --target check && ctest --test-dir /repo/_build -j8 --timeout 900",
               source_commits=[], add_only=True),
    engines=[dict(name="cbmc-dfcc", path="/verif/check", serves_properties=claimed,
                  kind_free_text="CBMC 6.11 code contracts: goto-cc -> goto-instrument --dfcc --enforce-contract/--replace-call-with-contract/--apply-loop-contracts -> cbmc")],
    checks=checks,
    not_applicable=na,
    notes="Contract-based deductive verification of the real C sources of /repo with CBMC code contracts. exit 0 = all obligations discharged; exit 1 + VIOLATION line = a named obligation failed; exit 2 = undecided (tool limit, stale spec).")
json.dump(man, open(os.path.join(HERE, "MANIFEST.json"), "w"), indent=1)
print("claimed:", claimed)
