import sys; import os; sys.path.insert(0, os.path.dirname(os.path.abspath(__file__)))
from vlib import pipeline as P, registry, inject
import re, time, importlib.util, importlib.machinery
spec = importlib.util.spec_from_loader("check", importlib.machinery.SourceFileLoader("check", os.path.join(os.path.dirname(os.path.abspath(__file__)), "check")))
chk = importlib.util.module_from_spec(spec); spec.loader.exec_module(chk)
pat=sys.argv[1]; tier=sys.argv[2]
jobs=[j for j in registry.jobs() if re.search(pat,j.name) and tier in j.tiers]
blocks = inject.parse_spec(os.path.join(os.path.dirname(os.path.abspath(__file__)), "contracts", "loops.spec"))
t0=time.time()
res = chk.schedule(jobs, lambda j: P.run_job(j, blocks, keep=False), max_workers=16)
for r in res:
  j=r.job
  bad=[o for o in r.obligations if o['status']!='SUCCESS' and not o['vacuity']]
  print(j.name+': '+str(r.undecided)+' %.1fs vac=%s n=%d bad=%d'%(r.seconds,r.vacuity_ok,len(r.obligations),len(bad)))
  seen=set()
  for o in bad:
    k=(o['function'],o['description'][:80],o['line'])
    if o['status']=='FAILURE' and k not in seen:
      seen.add(k); print('   %s %s %s | %s'%(o['name'], o['status'], o['description'][:100], o['text'][:60]))
print('wall %.0f'%(time.time()-t0))
