/* PATH_MAX (4096 on Linux) scaled down for the layered-reader jobs so that
 * the short concrete paths of those harnesses are LONGER than any buffer that
 * is sized by PATH_MAX instead of by the strings copied into it (C14).  The
 * verified text of the pinned tree does not use PATH_MAX in lib/readconfig.c
 * or lib/mergefiles.c; lib/helpers.c uses it for realpath()'s buffer, which
 * these jobs do not reach. */
#pragma once
#include <limits.h>
#undef PATH_MAX
#define PATH_MAX 6
