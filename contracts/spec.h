/* Specification functions, written from the property statements
 * (DESIGN.md section 5), not from the code.  All loops here are bounded by a
 * string LITERAL, never by an input length. */
#pragma once
#include <stddef.h>

/* case-insensitive equality of s with a lower-case literal word */
static inline int spec_ci_eq(const char *s, const char *word)
{
  size_t i = 0;
  for (; word[i]; i++) {
    char c = s[i];
    if (c >= 'A' && c <= 'Z')
      c = (char)(c + 32);
    if (c != word[i])
      return 0;
  }
  return s[i] == 0;
}

/* C09: "The boolean getter succeeds exactly on 1/0, yes/no, true/false in any
 * letter case (and on the empty value, as false) and fails on every other
 * text".  1 = true word, 0 = false word or empty, -1 = any other text. */
static inline int spec_bool_class(const char *s)
{
  if (spec_ci_eq(s, "1") || spec_ci_eq(s, "yes") || spec_ci_eq(s, "true"))
    return 1;
  if (s[0] == 0 || spec_ci_eq(s, "0") || spec_ci_eq(s, "no") || spec_ci_eq(s, "false"))
    return 0;
  return -1;
}
