/* Contracts for the single-file entry points econf_readFileWithCallback and
 * econf_readFile (lib/libeconf.c)  -  C06 C13 C16 C20.
 *
 * read_file_with_callback and econf_freeFile are REPLACED by the very
 * contracts that job rfwc proves / uses (contracts/rfwc.h): what is shown here
 * is that the entry points add nothing to and drop nothing from that
 * contract - same path, delimiter set, comment set, callback and data; the
 * specific refusal codes reach the caller; after any failure the object
 * created for the call has been released exactly once and the caller's
 * pointer is NULL.
 * econf_newKeyFile_with_options(.., "") is replaced by an ASSUMED contract
 * (fresh zeroed object or ECONF_NOMEM; bounded evidence: jobs options.*). */
#pragma once
#include "rfwc.h"

econf_err econf_newKeyFile_with_options(econf_file **result, const char *options)
__CPROVER_requires(result != NULL && options != NULL && options[0] == 0)
__CPROVER_requires(g.obj == NULL)
__CPROVER_assigns(*result, g.obj)
__CPROVER_ensures(__CPROVER_return_value == ECONF_SUCCESS || __CPROVER_return_value == ECONF_NOMEM)
__CPROVER_ensures(__CPROVER_return_value == ECONF_SUCCESS ==>
                  (__CPROVER_is_fresh(*result, sizeof(econf_file)) && g.obj == *result))
__CPROVER_ensures(__CPROVER_return_value != ECONF_SUCCESS ==> (*result == NULL && g.obj == NULL))
;

#define ENTRY_ARGS_OK (file_name != NULL && delim != NULL && comment != NULL)
/* postcondition shared by both entry points (r = return value) */
#define ENTRY_ENSURES \
__CPROVER_ensures(IS_CODE(__CPROVER_return_value)) \
/* success: the object created for the call, read by the parser */ \
__CPROVER_ensures(__CPROVER_return_value == ECONF_SUCCESS ==> \
                  (*key_file == g.obj && g.obj != NULL && g.rf_calls == 1 && g.rf_ret == ECONF_SUCCESS && g.free_calls == 0)) \
/* C20/C06: failure: nothing handed back, the object released exactly once */ \
__CPROVER_ensures(__CPROVER_return_value != ECONF_SUCCESS ==> *key_file == NULL) \
__CPROVER_ensures((__CPROVER_return_value != ECONF_SUCCESS && g.obj != NULL) ==> (g.free_calls == 1 && g.freed == g.obj)) \
__CPROVER_ensures(g.obj == NULL ==> (__CPROVER_return_value == ECONF_NOMEM && g.lstat_calls == 0 && g.rf_calls == 0)) \
/* C16: every restriction in force refuses with its specific code */ \
__CPROVER_ensures((g.obj != NULL && ENTRY_ARGS_OK && g.lstat_ret != 0) ==> __CPROVER_return_value == ECONF_NOFILE) \
__CPROVER_ensures((g.obj != NULL && ENTRY_ARGS_OK && g.lstat_ret == 0 && GATE_SYMLINK) ==> \
                  __CPROVER_return_value == ECONF_ERROR_FILE_IS_SYM_LINK) \
__CPROVER_ensures((g.obj != NULL && ENTRY_ARGS_OK && g.lstat_ret == 0 && !GATE_SYMLINK && GATE_OWNER) ==> \
                  __CPROVER_return_value == ECONF_WRONG_OWNER) \
__CPROVER_ensures((g.obj != NULL && ENTRY_ARGS_OK && g.lstat_ret == 0 && !GATE_SYMLINK && !GATE_OWNER && GATE_GROUP) ==> \
                  __CPROVER_return_value == ECONF_WRONG_GROUP) \
/* C06/C16: the parser ran at most once and only for a file that passed the gate and the callback */ \
__CPROVER_ensures((g.rf_calls == 0 || g.rf_calls == 1) && (g.rf_calls == 1 ==> (GATE_RULES_OK && CB_ACCEPTED))) \
__CPROVER_ensures((g.cb_calls == 0 || g.cb_calls == 1) && (g.free_calls == 0 || g.free_calls == 1)) \
/* C06: a rejecting callback -> its code, nothing parsed */ \
__CPROVER_ensures((g.obj != NULL && ENTRY_ARGS_OK && g.cb_calls == 1 && !g.cb_ret) ==> \
                  (__CPROVER_return_value == ECONF_PARSING_CALLBACK_FAILED && g.rf_calls == 0)) \
/* C13: a parse failure reaches the caller with the parser's code */ \
__CPROVER_ensures((g.obj != NULL && ENTRY_ARGS_OK && g.rf_calls == 1) ==> __CPROVER_return_value == g.rf_ret) \
__CPROVER_ensures(g.name == __CPROVER_old(g.name) && g.cb_data == __CPROVER_old(g.cb_data) && \
                  g.cb_given == __CPROVER_old(g.cb_given) && g.delim_arg == __CPROVER_old(g.delim_arg) && \
                  g.comment_arg == __CPROVER_old(g.comment_arg))

#define ENTRY_LOG_EMPTY (g.obj == NULL && g.lstat_calls == 0 && g.cb_calls == 0 && g.rf_calls == 0 && \
                         g.abs_calls == 0 && g.free_calls == 0)

econf_err econf_readFileWithCallback(econf_file **key_file, const char *file_name,
                                     const char *delim, const char *comment,
                                     bool (*callback)(const char *filename, const void *data),
                                     const void *callback_data)
__CPROVER_requires(__CPROVER_is_fresh(key_file, sizeof(*key_file)))
__CPROVER_requires(file_name == g.name && delim == g.delim_arg && comment == g.comment_arg)
__CPROVER_requires(callback_data == g.cb_data && g.cb_given == (callback != NULL))
__CPROVER_requires(ENTRY_LOG_EMPTY)
__CPROVER_assigns(*key_file)
__CPROVER_assigns(g)
ENTRY_ENSURES
;

econf_err econf_readFile(econf_file **key_file, const char *file_name,
                         const char *delim, const char *comment)
__CPROVER_requires(__CPROVER_is_fresh(key_file, sizeof(*key_file)))
__CPROVER_requires(file_name == g.name && delim == g.delim_arg && comment == g.comment_arg)
/* the plain variant has no callback */
__CPROVER_requires(g.cb_data == NULL && !g.cb_given)
__CPROVER_requires(ENTRY_LOG_EMPTY)
__CPROVER_assigns(*key_file)
__CPROVER_assigns(g)
ENTRY_ENSURES
;
