/* Contract for cpy_file_entry (lib/helpers.c), the entry copy every merge
 * worker uses: T1, texts of any length (abstract strdup with a four-slot
 * ghost log, stubs/strdup_log4.c; setGroupList replaced by a logging
 * contract).  C03: the copy carries exactly the source's key and value as private
 * copies, owns every text it points to, and its section name is interned in
 * the DESTINATION object. */
#pragma once
#include "libeconf.h"
#include "keyfile.h"
#include "helpers.h"
extern int sd4_n;
extern const char *sd4_s0, *sd4_s1, *sd4_s2, *sd4_s3;
extern char *sd4_r0, *sd4_r1, *sd4_r2, *sd4_r3;
struct cp_ghost { int gl_calls; econf_file *gl_kf; const char *gl_name; char *gl_ret; };
extern struct cp_ghost cp;
#define SD4_FRAME sd4_n, sd4_s0, sd4_s1, sd4_s2, sd4_s3, sd4_r0, sd4_r1, sd4_r2, sd4_r3
/* r was allocated by a logged strdup */
#define IS_OWN(r) ((sd4_n >= 1 && sd4_r0 == (r)) || (sd4_n >= 2 && sd4_r1 == (r)) || (sd4_n >= 3 && sd4_r2 == (r)) || (sd4_n >= 4 && sd4_r3 == (r)))
/* r is the result of a logged strdup(s) */
#define IS_COPY(r, s) ((r) != NULL && (r) != (s) && \
                       ((sd4_n >= 1 && sd4_s0 == (s) && sd4_r0 == (r)) || (sd4_n >= 2 && sd4_s1 == (s) && sd4_r1 == (r)) || \
                        (sd4_n >= 3 && sd4_s2 == (s) && sd4_r2 == (r)) || (sd4_n >= 4 && sd4_s3 == (s) && sd4_r3 == (r))))

char *setGroupList(econf_file *key_file, const char *name)
__CPROVER_requires(key_file != NULL && name != NULL && cp.gl_calls == 0)
__CPROVER_assigns(cp.gl_calls, cp.gl_kf, cp.gl_name)
__CPROVER_ensures(cp.gl_calls == 1 && cp.gl_kf == key_file && cp.gl_name == name && __CPROVER_return_value == cp.gl_ret)
;
struct file_entry cpy_file_entry(econf_file *dest_kf, struct file_entry fe)
__CPROVER_requires(dest_kf != NULL && fe.group != NULL && fe.key != NULL && sd4_n == 0 && cp.gl_calls == 0)
__CPROVER_assigns(cp.gl_calls, cp.gl_kf, cp.gl_name, SD4_FRAME)
/* section name: interned in the destination's section list, never shared with the source object */
__CPROVER_ensures(cp.gl_calls == 1 && cp.gl_kf == dest_kf && cp.gl_name == fe.group && __CPROVER_return_value.group == cp.gl_ret)
/* key, value: private copies of exactly the source's texts; an absent value stays absent */
__CPROVER_ensures(IS_COPY(__CPROVER_return_value.key, fe.key))
__CPROVER_ensures(fe.value == NULL ? __CPROVER_return_value.value == NULL : IS_COPY(__CPROVER_return_value.value, fe.value))
/* comments and line number are not part of C03's statement: only ownership is required of the comment
 * fields - absent, or a text allocated by this call (so that releasing the merge result cannot touch an
 * input: "both inputs are left unchanged") */
__CPROVER_ensures(__CPROVER_return_value.comment_before_key == NULL || IS_OWN(__CPROVER_return_value.comment_before_key))
__CPROVER_ensures(__CPROVER_return_value.comment_after_value == NULL || IS_OWN(__CPROVER_return_value.comment_after_value))
;
