/* Contracts for the macro-generated public wrappers of lib/libeconf.c
 * (econf_get<T>Value, econf_set<T>Value) and lib/get_value_def.c
 * (econf_get<T>ValueDef), with find_key / stripbrackets / get<T>ValueNum /
 * setKeyValue / econf_get<T>Value replaced by contracts.  C08 C09 C10 C11.
 * -DFCT=<Int|Int64|UInt|UInt64|Float|Double|String|Bool> -DCT=<C type> */
#pragma once
#include "libeconf.h"
#include "keyfile.h"
#include "helpers.h"

#define CAT2(a, b) a##b
#define CAT3(a, b, c) a##b##c
#define XCAT3(a, b, c) CAT3(a, b, c)
#define GETNUM XCAT3(get, FCT, ValueNum)
#define SETNUM XCAT3(set, FCT, ValueNum)
#define GETVAL XCAT3(econf_get, FCT, Value)
#define SETVAL XCAT3(econf_set, FCT, Value)
#define GETDEF XCAT3(econf_get, FCT, ValueDef)

struct gv_ghost {
  econf_file *kf; const char *group, *key; void *result;
  int fk_calls; const char *fk_group, *fk_key; econf_err fk_ret; size_t fk_num; size_t fk_length;
  int sb_calls; char *sb_arg;
  int gn_calls; size_t gn_num; void *gn_result; econf_err gn_ret; size_t gn_length; void *gn_entries;
  int skv_calls; void *skv_fn; econf_file *skv_kf; const char *skv_group, *skv_key; const void *skv_value; econf_err skv_ret;
  int gv_calls; econf_err gv_ret;
};
extern struct gv_ghost gv;
#define IS_CODE(r) ((r) >= ECONF_SUCCESS && (r) <= ECONF_VALUE_CONVERSION_ERROR)

econf_err find_key(econf_file key_file, const char *group, const char *key, size_t *num)
__CPROVER_requires(num != NULL && gv.fk_calls == 0)
__CPROVER_assigns(*num, gv.fk_calls, gv.fk_group, gv.fk_key, gv.fk_length)
__CPROVER_ensures(gv.fk_calls == 1 && gv.fk_group == group && gv.fk_key == key && gv.fk_length == key_file.length)
__CPROVER_ensures(__CPROVER_return_value == gv.fk_ret)
__CPROVER_ensures(gv.fk_ret == ECONF_SUCCESS ==> (*num == gv.fk_num && *num < key_file.length))
;

/* works in place on the string it is given and returns it */
char *stripbrackets(char *string)
__CPROVER_requires(string == NULL || __CPROVER_rw_ok(string, 1))
__CPROVER_assigns(string != NULL: __CPROVER_object_whole(string))
__CPROVER_assigns(gv.sb_calls, gv.sb_arg)
__CPROVER_ensures(__CPROVER_return_value == string && gv.sb_arg == string && gv.sb_calls == __CPROVER_old(gv.sb_calls) + 1)
;

#ifdef PART_GET
econf_err GETNUM(econf_file key_file, size_t num, CT *result)
/* precondition of every per-entry getter: a live index and a place for the result */
__CPROVER_requires(num < key_file.length && result != NULL && gv.gn_calls == 0)
__CPROVER_assigns(*result, gv.gn_calls, gv.gn_num, gv.gn_result, gv.gn_length, gv.gn_entries)
__CPROVER_ensures(gv.gn_calls == 1 && gv.gn_num == num && gv.gn_result == result &&
                  gv.gn_length == key_file.length && gv.gn_entries == key_file.file_entry)
__CPROVER_ensures(__CPROVER_return_value == gv.gn_ret)
;

econf_err GETVAL(econf_file *kf, const char *group, const char *key, CT *result)
__CPROVER_requires(kf == gv.kf && group == gv.group && key == gv.key && result == gv.result)
/* C10: a getter writes its result and nothing else (the section name is edited in a private copy) */
__CPROVER_assigns(result != NULL: *result)
__CPROVER_assigns(gv)
__CPROVER_ensures(IS_CODE(__CPROVER_return_value))
__CPROVER_ensures(kf == NULL ==> (__CPROVER_return_value != ECONF_SUCCESS && gv.fk_calls == 0 && gv.gn_calls == 0))
/* C11: the lookup is made with the caller's key and a PRIVATE copy of the section name, brackets stripped */
__CPROVER_ensures(kf != NULL ==> (gv.fk_calls == 1 && gv.fk_key == key && gv.fk_length == kf->length &&
                                  (group == NULL ? gv.fk_group == NULL
                                                 : (gv.fk_group != NULL && gv.fk_group != group && gv.sb_arg == gv.fk_group))))
/* not found / no key: that code, nothing converted */
__CPROVER_ensures((kf != NULL && gv.fk_ret != ECONF_SUCCESS) ==> (__CPROVER_return_value == gv.fk_ret && gv.gn_calls == 0))
__CPROVER_ensures((kf != NULL && gv.fk_ret == ECONF_SUCCESS && result == NULL) ==>
                  (__CPROVER_return_value != ECONF_SUCCESS && gv.gn_calls == 0))
/* C08/C09: found: exactly the entry the lookup named is converted by the matching per-entry getter into the caller's result */
__CPROVER_ensures((kf != NULL && gv.fk_ret == ECONF_SUCCESS && result != NULL) ==>
                  (gv.gn_calls == 1 && gv.gn_num == gv.fk_num && gv.gn_result == result && gv.gn_length == kf->length &&
                   gv.gn_entries == kf->file_entry && __CPROVER_return_value == gv.gn_ret))
;
#endif

#ifdef PART_SET
econf_err setKeyValue(econf_err (*function)(econf_file *, size_t, const void *), econf_file *kf,
                      const char *group, const char *key, const void *value)
__CPROVER_requires(kf != NULL && key != NULL && gv.skv_calls == 0)
__CPROVER_assigns(gv.skv_calls, gv.skv_fn, gv.skv_kf, gv.skv_group, gv.skv_key, gv.skv_value)
__CPROVER_ensures(gv.skv_calls == 1 && gv.skv_fn == (void *)function && gv.skv_kf == kf && gv.skv_group == group &&
                  gv.skv_key == key && gv.skv_value == value)
__CPROVER_ensures(__CPROVER_return_value == gv.skv_ret)
;

econf_err SETVAL(econf_file *kf, const char *group, const char *key, SVT value)
__CPROVER_requires(kf == gv.kf && group == gv.group && key == gv.key)
__CPROVER_assigns(gv)
__CPROVER_ensures(IS_CODE(__CPROVER_return_value))
/* C11: "calls without object, without key or with an empty key are refused with an error code and no effect" */
__CPROVER_ensures((kf == NULL || key == NULL || key[0] == 0) ==> (__CPROVER_return_value != ECONF_SUCCESS && gv.skv_calls == 0))
/* otherwise the store goes through setKeyValue with the matching per-entry setter, the caller's key and a
 * PRIVATE bracket-stripped copy of the section name */
__CPROVER_ensures((kf != NULL && key != NULL && key[0] != 0) ==>
                  (gv.skv_calls == 1 && gv.skv_fn == (void *)SETNUM && gv.skv_kf == kf && gv.skv_key == key &&
                   (group == NULL ? gv.skv_group == NULL : (gv.skv_group != NULL && gv.skv_group != group && gv.sb_arg == gv.skv_group)) &&
                   __CPROVER_return_value == gv.skv_ret))
;
#endif

#ifdef PART_DEF
extern CT gv_out;   /* what the plain getter left in *result (any value) */
econf_err GETVAL(econf_file *kf, const char *group, const char *key, CT *result)
__CPROVER_requires(gv.gv_calls == 0)
__CPROVER_assigns(result != NULL: *result)
__CPROVER_assigns(gv.gv_calls, gv.kf, gv.group, gv.key, gv.result, gv_out)
__CPROVER_ensures(gv.gv_calls == 1 && gv.kf == kf && gv.group == group && gv.key == key && gv.result == (void *)result)
__CPROVER_ensures(__CPROVER_return_value == gv.gv_ret)
__CPROVER_ensures(result != NULL ==> *result == gv_out)
;
#endif
