/* Contract for the single choke point lib/getfilecontents.c:
 * read_file_with_callback() (C06, C13, C16, C20), with its callees read_file,
 * get_absolute_path and econf_freeFile REPLACED by the contracts below. */
#pragma once
#include <sys/stat.h>
#include "libeconf.h"
#include "keyfile.h"
#include "getfilecontents.h"
#include "helpers.h"

struct rfwc_ghost {
  /* what the harness handed in */
  const char *name;          /* file_name argument */
  const void *cb_data;       /* callback_data argument */
  int cb_given;              /* callback != NULL */
  econf_file *obj;           /* *key_file on entry */
  const char *delim_arg, *comment_arg;   /* delim / comment arguments */
  /* lstat stub (call 1 = the file, call 2 = its directory) */
  int lstat_calls;
  const char *lstat_name;    /* path of call 1 */
  int lstat_ret;             /* result of call 1 */
  mode_t st_mode; uid_t st_uid; gid_t st_gid;
  int dir_lstat_ret; mode_t dir_st_mode;
  /* callback stub */
  int cb_calls; const char *cb_name; const void *cb_arg; int cb_ret;
  int cb_before_read;        /* callback ran while read_file had not run */
  /* replaced read_file */
  int rf_calls; econf_err rf_ret; econf_file *rf_obj; const char *rf_path;
  /* replaced get_absolute_path */
  int abs_calls; char *abs_path; econf_err abs_err;
  /* replaced econf_freeFile */
  int free_calls; econf_file *freed;
};
extern struct rfwc_ghost g;

#define IS_CODE(r) ((r) >= ECONF_SUCCESS && (r) <= ECONF_VALUE_CONVERSION_ERROR)

/* the gate of C16, written from the statement over the lstat result */
#define GATE_SYMLINK (!allow_follow_symlinks && (g.st_mode & S_IFMT) == S_IFLNK)
#define GATE_OWNER   (file_owner_set && g.st_uid != file_owner)
#define GATE_GROUP   (file_group_set && g.st_gid != file_group)
#define GATE_RULES_OK (g.lstat_calls >= 1 && g.lstat_name == g.name && g.lstat_ret == 0 && \
                       !GATE_SYMLINK && !GATE_OWNER && !GATE_GROUP)
#define CB_ACCEPTED (!g.cb_given || (g.cb_calls == 1 && g.cb_name == g.name && \
                                     g.cb_arg == g.cb_data && g.cb_ret))

/* --- replaced callees -------------------------------------------------- */

/* The parser.  Its PRECONDITION carries C06 and C16: it may only be entered
 * for a file that passed every restriction in force and that the caller's
 * callback accepted, under its exact path and data pointer. */
econf_err read_file(econf_file *ef, const char *file, const char *delim, const char *comment)
__CPROVER_requires(GATE_RULES_OK)
__CPROVER_requires(CB_ACCEPTED)
__CPROVER_requires(ef != NULL && ef == g.obj && file != NULL && file == g.abs_path)
__CPROVER_requires(delim != NULL && comment != NULL && *comment != 0)
/* C05/C02: the parser works with the caller's delimiter set and comment set; an empty comment set means "#" */
__CPROVER_requires(delim == g.delim_arg)
__CPROVER_requires(g.comment_arg != NULL && (g.comment_arg[0] != 0 ? comment == g.comment_arg
                                                                   : (comment[0] == '#' && comment[1] == 0)))
__CPROVER_requires(g.rf_calls == 0)
__CPROVER_assigns(g.rf_calls, g.rf_ret, g.rf_obj, g.rf_path)
__CPROVER_ensures(g.rf_calls == 1 && g.rf_obj == ef && g.rf_path == file)
__CPROVER_ensures(IS_CODE(__CPROVER_return_value) && g.rf_ret == __CPROVER_return_value)
;

char *get_absolute_path(const char *path, econf_err *error)
__CPROVER_requires(path != NULL && path == g.name && error != NULL)
__CPROVER_assigns(*error, g.abs_calls, g.abs_path, g.abs_err)
__CPROVER_ensures(g.abs_calls == __CPROVER_old(g.abs_calls) + 1)
__CPROVER_ensures(__CPROVER_return_value == NULL ||
                  __CPROVER_is_fresh(__CPROVER_return_value, 2))
__CPROVER_ensures(__CPROVER_return_value == g.abs_path)
__CPROVER_ensures(__CPROVER_return_value == NULL ==>
                  (*error == g.abs_err && (g.abs_err == ECONF_NOFILE || g.abs_err == ECONF_NOMEM)))
;

econf_file *econf_freeFile(econf_file *key_file)
__CPROVER_requires(key_file == NULL || (key_file == g.obj && g.free_calls == 0))
__CPROVER_assigns(g.free_calls, g.freed)
__CPROVER_ensures(__CPROVER_return_value == NULL)
__CPROVER_ensures(key_file != NULL ==> (g.free_calls == 1 && g.freed == key_file))
__CPROVER_ensures(key_file == NULL ==> (g.free_calls == __CPROVER_old(g.free_calls) && g.freed == __CPROVER_old(g.freed)))
;

/* --- the function under contract ---------------------------------------- */

#define ARGS_OK (key_file != NULL && file_name != NULL && delim != NULL && comment != NULL)
#define REFUSED_EARLY(code) (g.cb_calls == 0 && g.rf_calls == 0 && g.free_calls == 0 && \
                             *key_file == g.obj && __CPROVER_return_value == (code))

econf_err
read_file_with_callback(econf_file **key_file, const char *file_name,
                        const char *delim, const char *comment,
                        bool (*callback)(const char *filename, const void *data),
                        const void *callback_data)
__CPROVER_requires(key_file == NULL || (*key_file == g.obj && g.obj != NULL))
__CPROVER_requires(file_name == g.name && callback_data == g.cb_data)
__CPROVER_requires(g.cb_given == (callback != NULL))
__CPROVER_requires(delim == g.delim_arg && comment == g.comment_arg)
/* the call log is empty on entry (the counts in the postconditions are absolute) */
__CPROVER_requires(g.lstat_calls == 0 && g.cb_calls == 0 && g.rf_calls == 0 && g.abs_calls == 0 && g.free_calls == 0)
__CPROVER_assigns(key_file != NULL: *key_file, (*key_file)->comment)
__CPROVER_assigns(g)
/* C13/C20: a documented code; on any failure the caller's pointer is either
 * untouched or NULL after exactly one release of the object */
__CPROVER_ensures(IS_CODE(__CPROVER_return_value))
__CPROVER_ensures(!ARGS_OK ==> (__CPROVER_return_value == ECONF_ERROR && g.lstat_calls == 0))
/* missing file */
__CPROVER_ensures((ARGS_OK && g.lstat_ret != 0) ==> REFUSED_EARLY(ECONF_NOFILE))
/* C16: each restriction in force refuses with its specific code, and neither
 * the callback nor the parser sees the file */
__CPROVER_ensures((ARGS_OK && g.lstat_ret == 0 && GATE_SYMLINK) ==>
                  REFUSED_EARLY(ECONF_ERROR_FILE_IS_SYM_LINK))
__CPROVER_ensures((ARGS_OK && g.lstat_ret == 0 && !GATE_SYMLINK && GATE_OWNER) ==>
                  REFUSED_EARLY(ECONF_WRONG_OWNER))
__CPROVER_ensures((ARGS_OK && g.lstat_ret == 0 && !GATE_SYMLINK && !GATE_OWNER && GATE_GROUP) ==>
                  REFUSED_EARLY(ECONF_WRONG_GROUP))
/* C16: a file that satisfies the rules is read as usual (no permission rule
 * in force, callback absent or accepting, path resolvable) */
__CPROVER_ensures((ARGS_OK && g.lstat_ret == 0 && !GATE_SYMLINK && !GATE_OWNER && !GATE_GROUP &&
                   !file_permissions_set && (!g.cb_given || g.cb_ret) && g.abs_path != NULL) ==>
                  (g.rf_calls == 1 && __CPROVER_return_value == g.rf_ret))
/* C06: the callback is called at most once, with the exact path and data,
 * before the parser; a rejection yields the callback-failed code and nothing
 * of the file is used */
__CPROVER_ensures(g.cb_calls <= 1 && (g.cb_calls == 1 ==>
                  (g.cb_given && g.cb_name == g.name && g.cb_arg == g.cb_data && g.cb_before_read)))
__CPROVER_ensures((ARGS_OK && g.cb_calls == 1 && !g.cb_ret) ==>
                  (g.rf_calls == 0 && __CPROVER_return_value == ECONF_PARSING_CALLBACK_FAILED &&
                   *key_file == g.obj && g.free_calls == 0))
__CPROVER_ensures((g.cb_given && g.rf_calls == 1) ==> (g.cb_calls == 1 && g.cb_ret))
/* C13/C20: parse failure: object released exactly once, pointer cleared,
 * the parser's code handed on; success: object kept */
__CPROVER_ensures((ARGS_OK && g.rf_calls == 1 && g.rf_ret != ECONF_SUCCESS) ==>
                  (__CPROVER_return_value == g.rf_ret && *key_file == NULL &&
                   g.free_calls == 1 && g.freed == g.obj))
__CPROVER_ensures((ARGS_OK && g.rf_calls == 1 && g.rf_ret == ECONF_SUCCESS) ==>
                  (__CPROVER_return_value == ECONF_SUCCESS && *key_file == g.obj && g.free_calls == 0))
__CPROVER_ensures(!ARGS_OK ==> (g.rf_calls == 0 && g.cb_calls == 0))
__CPROVER_ensures(g.rf_calls == 0 ==> (g.free_calls == 0 && (key_file == NULL || *key_file == g.obj)))
__CPROVER_ensures((__CPROVER_return_value == ECONF_SUCCESS) == (g.rf_calls == 1 && g.rf_ret == ECONF_SUCCESS))
/* what identifies the call is not touched (needed where this contract REPLACES the function: jobs entry.*) */
__CPROVER_ensures(g.obj == __CPROVER_old(g.obj) && g.name == __CPROVER_old(g.name) &&
                  g.cb_data == __CPROVER_old(g.cb_data) && g.cb_given == __CPROVER_old(g.cb_given) &&
                  g.delim_arg == __CPROVER_old(g.delim_arg) && g.comment_arg == __CPROVER_old(g.comment_arg))
/* C06/C16 in one line for the callers: the parser ran only for a file that passed every rule in
 * force and that the callback accepted */
__CPROVER_ensures((g.rf_calls == 0 || g.rf_calls == 1) && (g.rf_calls == 1 ==> (GATE_RULES_OK && CB_ACCEPTED)))
__CPROVER_ensures((g.cb_calls == 0 || g.cb_calls == 1) && (g.free_calls == 0 || g.free_calls == 1) &&
                  g.lstat_calls >= 0 && g.lstat_calls <= 2)
/* C07: the object remembers the first comment character it was read with ('#' when none was given) */
__CPROVER_ensures((ARGS_OK && g.rf_calls == 1 && g.rf_ret == ECONF_SUCCESS) ==>
                  (*key_file)->comment == (comment[0] ? comment[0] : '#'))
;
