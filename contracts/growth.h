/* Contracts for the growth step of the entry array and for the section list
 * lookup (lib/keyfile.c key_file_append, lib/helpers.c getFromGroupList):
 * T1, any length / allocation / section count (C11, C04, C20). */
#pragma once
#include <string.h>
#include <stdlib.h>
#include "libeconf.h"
#include "keyfile.h"
#include "helpers.h"

struct gr_ghost { int init_calls; size_t init_num; econf_file *init_kf; };
extern struct gr_ghost gr;

#if defined(PART_NEWKF) || defined(PART_NEWINI)
/* econf_newKeyFile (lib/libeconf.c): the constructor with pre-initialised slots.  initialize() is
 * replaced by a logging contract that REQUIRES the slots to be initialised in ascending order, each
 * inside the array just allocated (its own effect: job initialize). */
#include "defines.h"
void initialize(econf_file *key_file, size_t num)
__CPROVER_requires(key_file != NULL && key_file->file_entry != NULL && key_file->alloc_length == KEY_FILE_DEFAULT_LENGTH)
__CPROVER_requires(num == (size_t)gr.init_calls && num < KEY_FILE_DEFAULT_LENGTH)
__CPROVER_requires(gr.init_calls == 0 || gr.init_kf == key_file)
__CPROVER_assigns(gr)
__CPROVER_ensures(gr.init_calls == __CPROVER_old(gr.init_calls) + 1 && gr.init_num == num && gr.init_kf == key_file)
;

econf_err econf_newKeyFile(econf_file **result, char delimiter, char comment)
__CPROVER_requires(__CPROVER_is_fresh(result, sizeof(*result)))
__CPROVER_requires(gr.init_calls == 0)
__CPROVER_assigns(*result, gr)
__CPROVER_ensures(__CPROVER_return_value == ECONF_SUCCESS || __CPROVER_return_value == ECONF_NOMEM)
/* C11: the new object is the empty configuration with KEY_FILE_DEFAULT_LENGTH spare slots, every one
 * of them initialised exactly once; it carries the given delimiter and comment character, no
 * options, no layers, no sections */
__CPROVER_ensures(__CPROVER_return_value == ECONF_SUCCESS ==>
                  (__CPROVER_is_fresh(*result, sizeof(econf_file)) &&
                   (*result)->length == 0 && (*result)->alloc_length == KEY_FILE_DEFAULT_LENGTH &&
                   (*result)->delimiter == delimiter && (*result)->comment == comment &&
                   !(*result)->join_same_entries && !(*result)->python_style &&
                   (*result)->parse_dirs == NULL && (*result)->parse_dirs_count == 0 &&
                   (*result)->conf_dirs == NULL && (*result)->conf_count == 0 &&
                   (*result)->groups == NULL && (*result)->group_count == 0 &&
                   (*result)->path == NULL && (*result)->root_prefix == NULL && !(*result)->on_merge_delete &&
                   gr.init_calls == KEY_FILE_DEFAULT_LENGTH && gr.init_kf == *result))
__CPROVER_ensures(__CPROVER_return_value == ECONF_SUCCESS ==>
                  __CPROVER_is_fresh((*result)->file_entry, KEY_FILE_DEFAULT_LENGTH * sizeof(struct file_entry)))
;
#ifdef PART_NEWINI
/* econf_newIniFile = econf_newKeyFile(result, '=', '#') (the callee REPLACED by its proved contract) */
econf_err econf_newIniFile(econf_file **result)
__CPROVER_requires(__CPROVER_is_fresh(result, sizeof(*result)))
__CPROVER_requires(gr.init_calls == 0)
__CPROVER_assigns(*result, gr)
__CPROVER_ensures(__CPROVER_return_value == ECONF_SUCCESS || __CPROVER_return_value == ECONF_NOMEM)
__CPROVER_ensures(__CPROVER_return_value == ECONF_SUCCESS ==>
                  ((*result)->length == 0 && (*result)->alloc_length == KEY_FILE_DEFAULT_LENGTH &&
                   (*result)->delimiter == '=' && (*result)->comment == '#' &&
                   !(*result)->join_same_entries && !(*result)->python_style &&
                   (*result)->parse_dirs_count == 0 && (*result)->conf_count == 0 && (*result)->group_count == 0 &&
                   (*result)->path == NULL && gr.init_calls == KEY_FILE_DEFAULT_LENGTH && gr.init_kf == *result))
;
#endif
#endif

#ifdef PART_APPEND
/* the new slot is initialised by initialize() (its effect is checked by the api.* jobs) */
void initialize(econf_file *key_file, size_t num)
__CPROVER_requires(key_file != NULL && num < key_file->alloc_length && key_file->file_entry != NULL)
__CPROVER_assigns(gr)
__CPROVER_ensures(gr.init_calls == __CPROVER_old(gr.init_calls) + 1 && gr.init_num == num && gr.init_kf == key_file)
;

void *realloc(void *ptr, size_t size)
__CPROVER_requires(size > 0)
__CPROVER_assigns()
__CPROVER_frees(ptr)
__CPROVER_ensures(__CPROVER_is_fresh(__CPROVER_return_value, size))
;

econf_err key_file_append(econf_file *kf)
__CPROVER_requires(kf == NULL || (kf->length <= kf->alloc_length && kf->alloc_length < ((size_t)1 << 40)))
__CPROVER_assigns(kf != NULL: kf->length, kf->alloc_length, kf->file_entry)
__CPROVER_assigns(gr)
__CPROVER_frees(kf != NULL: kf->file_entry)
__CPROVER_ensures(kf == NULL ==> __CPROVER_return_value == ECONF_ERROR)
/* C11: "growth beyond the pre-allocated entries": one more live entry, never more live entries than slots,
 * a fresh slot is initialised exactly when the array had to grow */
__CPROVER_ensures(kf != NULL ==> (__CPROVER_return_value == ECONF_SUCCESS &&
                                  kf->length == __CPROVER_old(kf->length) + 1 && kf->length <= kf->alloc_length &&
                                  kf->file_entry != NULL))
__CPROVER_ensures((kf != NULL && __CPROVER_old(kf->length) < __CPROVER_old(kf->alloc_length)) ==>
                  (kf->alloc_length == __CPROVER_old(kf->alloc_length) && gr.init_calls == 0))
__CPROVER_ensures((kf != NULL && __CPROVER_old(kf->length) == __CPROVER_old(kf->alloc_length)) ==>
                  (kf->alloc_length == __CPROVER_old(kf->alloc_length) + 1 && gr.init_calls == 1 &&
                   gr.init_num == kf->alloc_length - 1 && gr.init_kf == kf))
;
#endif

#ifdef PART_GROUPLIST
int strcmp(const char *a, const char *b)
__CPROVER_assigns()
__CPROVER_ensures(1)
;
char *getFromGroupList(econf_file *key_file, const char *name)
__CPROVER_requires(key_file != NULL && key_file->group_count >= 0 && key_file->group_count < (1 << 20))
__CPROVER_requires(key_file->group_count == 0 || __CPROVER_is_fresh(key_file->groups, (key_file->group_count + 1) * sizeof(char *)))
__CPROVER_assigns()
__CPROVER_ensures(1)
;
#endif
