/* Contracts for the growth step of the entry array and for the section list
 * lookup (lib/keyfile.c key_file_append, lib/helpers.c getFromGroupList):
 * T1, any length / allocation / section count (C11, C04, C20). */
#pragma once
#include <string.h>
#include <stdlib.h>
#include "libeconf.h"
#include "keyfile.h"
#include "helpers.h"

struct gr_ghost { int init_calls; size_t init_num; econf_file *init_kf; };
extern struct gr_ghost gr;

#ifdef PART_APPEND
/* the new slot is initialised by initialize() (its effect is checked by the api.* jobs) */
void initialize(econf_file *key_file, size_t num)
__CPROVER_requires(key_file != NULL && num < key_file->alloc_length && key_file->file_entry != NULL)
__CPROVER_assigns(gr)
__CPROVER_ensures(gr.init_calls == __CPROVER_old(gr.init_calls) + 1 && gr.init_num == num && gr.init_kf == key_file)
;

void *realloc(void *ptr, size_t size)
__CPROVER_requires(size > 0)
__CPROVER_assigns()
__CPROVER_frees(ptr)
__CPROVER_ensures(__CPROVER_is_fresh(__CPROVER_return_value, size))
;

econf_err key_file_append(econf_file *kf)
__CPROVER_requires(kf == NULL || (kf->length <= kf->alloc_length && kf->alloc_length < ((size_t)1 << 40)))
__CPROVER_assigns(kf != NULL: kf->length, kf->alloc_length, kf->file_entry)
__CPROVER_assigns(gr)
__CPROVER_frees(kf != NULL: kf->file_entry)
__CPROVER_ensures(kf == NULL ==> __CPROVER_return_value == ECONF_ERROR)
/* C11: "growth beyond the pre-allocated entries": one more live entry, never more live entries than slots,
 * a fresh slot is initialised exactly when the array had to grow */
__CPROVER_ensures(kf != NULL ==> (__CPROVER_return_value == ECONF_SUCCESS &&
                                  kf->length == __CPROVER_old(kf->length) + 1 && kf->length <= kf->alloc_length &&
                                  kf->file_entry != NULL))
__CPROVER_ensures((kf != NULL && __CPROVER_old(kf->length) < __CPROVER_old(kf->alloc_length)) ==>
                  (kf->alloc_length == __CPROVER_old(kf->alloc_length) && gr.init_calls == 0))
__CPROVER_ensures((kf != NULL && __CPROVER_old(kf->length) == __CPROVER_old(kf->alloc_length)) ==>
                  (kf->alloc_length == __CPROVER_old(kf->alloc_length) + 1 && gr.init_calls == 1 &&
                   gr.init_num == kf->alloc_length - 1 && gr.init_kf == kf))
;
#endif

#ifdef PART_GROUPLIST
int strcmp(const char *a, const char *b)
__CPROVER_assigns()
__CPROVER_ensures(1)
;
char *getFromGroupList(econf_file *key_file, const char *name)
__CPROVER_requires(key_file != NULL && key_file->group_count >= 0 && key_file->group_count < (1 << 20))
__CPROVER_requires(key_file->group_count == 0 || __CPROVER_is_fresh(key_file->groups, (key_file->group_count + 1) * sizeof(char *)))
__CPROVER_assigns()
__CPROVER_ensures(1)
;
#endif
