/* The only place where a constant of the verified text is changed: BUFSIZ
 * (8192 in glibc) is scaled down so that CBMC can push values and comments
 * across the size of every BUFSIZ-sized buffer (C14). */
#pragma once
#include <stdio.h>
#undef BUFSIZ
#ifndef BUFSIZ_SMALL
#define BUFSIZ_SMALL 4
#endif
#define BUFSIZ BUFSIZ_SMALL
