/* Contract for readConfigWithCallback (lib/readconfig.c), with its callees
 * readConfigHistoryWithCallback (jobs history.*), merge_econf_files (jobs
 * fold.*) and econf_freeFile replaced by contracts.  C06 C12 C20. */
#pragma once
#include "libeconf.h"
#include "keyfile.h"
#include "readconfig.h"
#include "mergefiles.h"

struct rc_ghost {
  econf_file *obj;                 /* *result on entry */
  const char *name, *suffix, *delim, *comment;
  char **dirs; int ndirs;          /* process-wide drop-in dir list passed in */
  bool (*cb)(const char *, const void *);
  const void *cb_data;
  /* history callee */
  int hist_calls; econf_err hist_ret; econf_file **hist_array; size_t hist_size;
  int hist_args_ok;
  /* merge callee */
  int merge_calls; econf_err merge_ret; econf_file *merge_result;
  /* free */
  int free_calls; econf_file *freed;   /* releases of the placeholder object */
  int mfree_calls;                     /* releases of a merge result (entry points, after a failed merge) */
  /* entry points (jobs entry.*): the two directory arguments */
  const char *dist, *etc;
};
extern struct rc_ghost rc;
#define IS_CODE(r) ((r) >= ECONF_SUCCESS && (r) <= ECONF_VALUE_CONVERSION_ERROR)
/* jobs entry.econf_readDirs*: what the entry point must have put into the object (contracts/entry_dirs.h) */
#ifndef RCWC_EXTRA_REQUIRES
#define RCWC_EXTRA_REQUIRES
#endif

econf_err readConfigHistoryWithCallback(econf_file ***key_files, size_t *size, char **parse_dirs,
					const int parse_dirs_count, const char *config_name,
					const char *config_suffix, const char *delim, const char *comment,
					const bool join_same_entries, const bool python_style,
					char **conf_dirs, const int conf_count,
					bool (*callback)(const char *filename, const void *data),
					const void *callback_data)
/* C12: the merged reader consults exactly what the history reader consults:
 * the object's layers, the same name/suffix/delimiters/options; the object's
 * own drop-in directory list wins over the process-wide one.
 * C06: callback and data forwarded unchanged. */
__CPROVER_requires(rc.hist_calls == 0 && key_files != NULL && size != NULL)
__CPROVER_requires(parse_dirs == rc.obj->parse_dirs && parse_dirs_count == rc.obj->parse_dirs_count)
__CPROVER_requires(config_name == rc.name && config_suffix == rc.suffix && delim == rc.delim && comment == rc.comment)
__CPROVER_requires(join_same_entries == rc.obj->join_same_entries && python_style == rc.obj->python_style)
__CPROVER_requires(rc.obj->conf_count > 0 ? (conf_dirs == rc.obj->conf_dirs && conf_count == rc.obj->conf_count)
                                         : (conf_dirs == rc.dirs && conf_count == rc.ndirs))
__CPROVER_requires(callback == rc.cb && callback_data == rc.cb_data)
__CPROVER_assigns(*key_files, *size, rc.hist_calls)
__CPROVER_ensures(rc.hist_calls == 1 && __CPROVER_return_value == rc.hist_ret)
__CPROVER_ensures(rc.hist_ret == ECONF_SUCCESS ? (*key_files == rc.hist_array && *size == rc.hist_size)
                                               : (*key_files == NULL))
;

econf_err merge_econf_files(econf_file **key_files, econf_file **merged_files)
__CPROVER_requires(rc.merge_calls == 0 && key_files != NULL && key_files == rc.hist_array && merged_files != NULL)
__CPROVER_assigns(*merged_files, rc.merge_calls)
__CPROVER_ensures(rc.merge_calls == 1 && __CPROVER_return_value == rc.merge_ret)
__CPROVER_ensures(*merged_files == rc.merge_result)
;

econf_file *econf_freeFile(econf_file *key_file)
/* nothing is released twice: the placeholder object once; a merge result (which only an entry point
 * may release, after a failed merge) once.  A merge result that happens to have the address of the
 * already released placeholder is a different object. */
__CPROVER_requires(key_file == NULL || (key_file == rc.obj && rc.free_calls == 0) ||
                   (key_file == rc.merge_result && rc.merge_calls == 1 && rc.mfree_calls == 0))
__CPROVER_assigns(rc.free_calls, rc.freed, rc.mfree_calls)
__CPROVER_ensures(__CPROVER_return_value == NULL)
__CPROVER_ensures((key_file != NULL && key_file == rc.obj && __CPROVER_old(rc.free_calls) == 0) ==>
                  (rc.free_calls == 1 && rc.freed == key_file && rc.mfree_calls == __CPROVER_old(rc.mfree_calls)))
__CPROVER_ensures((key_file != NULL && !(key_file == rc.obj && __CPROVER_old(rc.free_calls) == 0)) ==>
                  (rc.mfree_calls == 1 && rc.free_calls == __CPROVER_old(rc.free_calls) && rc.freed == __CPROVER_old(rc.freed)))
__CPROVER_ensures(key_file == NULL ==> (rc.free_calls == __CPROVER_old(rc.free_calls) && rc.freed == __CPROVER_old(rc.freed) &&
                                        rc.mfree_calls == __CPROVER_old(rc.mfree_calls)))
;

econf_err readConfigWithCallback(econf_file **result, const char *config_name, const char *config_suffix,
				 const char *delim, const char *comment, char **conf_dirs, const int conf_count,
				 bool (*callback)(const char *filename, const void *data), const void *callback_data)
__CPROVER_requires(result != NULL && *result == rc.obj)
__CPROVER_requires(config_name == rc.name && config_suffix == rc.suffix && delim == rc.delim && comment == rc.comment)
__CPROVER_requires(conf_dirs == rc.dirs && conf_count == rc.ndirs && callback == rc.cb && callback_data == rc.cb_data)
/* the call log is empty on entry (the counts in the postconditions are absolute) */
__CPROVER_requires(rc.hist_calls == 0 && rc.merge_calls == 0 && rc.free_calls == 0 && rc.mfree_calls == 0)
RCWC_EXTRA_REQUIRES
__CPROVER_assigns(*result, rc)
/* the history array is owned by this function once the history reader handed it over */
__CPROVER_frees(rc.hist_array)
__CPROVER_ensures(IS_CODE(__CPROVER_return_value))
/* what identifies the call is not touched (needed where this contract REPLACES the function: jobs entry.*) */
__CPROVER_ensures(rc.obj == __CPROVER_old(rc.obj) && rc.name == __CPROVER_old(rc.name) && rc.suffix == __CPROVER_old(rc.suffix) &&
                  rc.delim == __CPROVER_old(rc.delim) && rc.comment == __CPROVER_old(rc.comment) &&
                  rc.dirs == __CPROVER_old(rc.dirs) && rc.ndirs == __CPROVER_old(rc.ndirs) &&
                  rc.cb == __CPROVER_old(rc.cb) && rc.cb_data == __CPROVER_old(rc.cb_data) &&
                  rc.dist == __CPROVER_old(rc.dist) && rc.etc == __CPROVER_old(rc.etc))
__CPROVER_ensures((rc.hist_calls == 0 || rc.hist_calls == 1) && (rc.merge_calls == 0 || rc.merge_calls == 1) &&
                  (rc.free_calls == 0 || rc.free_calls == 1) && rc.mfree_calls == 0)
__CPROVER_ensures(rc.obj == NULL ==> (__CPROVER_return_value == ECONF_ARGUMENT_IS_NULL_VALUE && rc.hist_calls == 0))
__CPROVER_ensures(rc.obj != NULL ==> rc.hist_calls == 1)
/* C06: any failing file: the code is handed on, nothing is merged, the
 * caller's own object is neither replaced nor released */
__CPROVER_ensures((rc.obj != NULL && rc.hist_ret != ECONF_SUCCESS) ==>
                  (__CPROVER_return_value == rc.hist_ret && rc.merge_calls == 0 &&
                   *result == rc.obj && rc.free_calls == 0))
/* C12: merged variant = history + merge of that very array; C20: the
 * placeholder object is released exactly once */
__CPROVER_ensures((rc.obj != NULL && rc.hist_ret == ECONF_SUCCESS) ==>
                  (rc.merge_calls == 1 && __CPROVER_return_value == rc.merge_ret &&
                   *result == rc.merge_result && rc.free_calls == 1 && rc.freed == rc.obj))
;
