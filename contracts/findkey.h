/* Contract for find_key (lib/helpers.c) with an injected loop contract: for an
 * entry array of ANY length the returned index is in range, the loop
 * terminates, nothing but *num is written (C04, C10, C11).  strcmp is replaced
 * by an abstract contract (any result), so the strings need not even be valid:
 * the index arithmetic is proved independently of their contents.  First-match
 * semantics is decided by the bounded api.* jobs. */
#pragma once
#include <string.h>
#include "libeconf.h"
#include "keyfile.h"
#include "helpers.h"

int strcmp(const char *a, const char *b)
__CPROVER_assigns()
__CPROVER_ensures(1)
;

econf_err find_key(econf_file key_file, const char *group, const char *key, size_t *num)
__CPROVER_requires(num != NULL)
__CPROVER_assigns(*num)
__CPROVER_ensures(__CPROVER_return_value == ECONF_SUCCESS || __CPROVER_return_value == ECONF_NOKEY ||
                  __CPROVER_return_value == ECONF_ERROR || __CPROVER_return_value == ECONF_NOMEM)
__CPROVER_ensures(__CPROVER_return_value == ECONF_SUCCESS ==> *num < key_file.length)
__CPROVER_ensures((key == NULL || key[0] == 0) ==> __CPROVER_return_value == ECONF_ERROR)
;
