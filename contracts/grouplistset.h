/* Contract for setGroupList (lib/helpers.c), the interning step behind
 * setGroup, initialize and cpy_file_entry: T1, a section list of ANY length,
 * names of any length (abstract strdup with a ghost log; the lookup
 * getFromGroupList - own job grouplist - and realloc replaced by contracts). */
#pragma once
#include <stdlib.h>
#include "libeconf.h"
#include "keyfile.h"
#include "helpers.h"
extern int sd_n;
extern const char *sd_src0, *sd_src1;
extern char *sd_res0, *sd_res1;
struct sl_ghost { econf_file *kf; int gf_calls; const char *gf_name; econf_file *gf_kf; char *gf_ret; };
extern struct sl_ghost sl;

char *getFromGroupList(econf_file *key_file, const char *name)
__CPROVER_requires(key_file != NULL && name != NULL && sl.gf_calls == 0)
__CPROVER_assigns(sl.gf_calls, sl.gf_name, sl.gf_kf)
__CPROVER_ensures(sl.gf_calls == 1 && sl.gf_name == name && sl.gf_kf == key_file && __CPROVER_return_value == sl.gf_ret)
;
/* a fresh object of the requested size; the old one is released.  That the old CONTENTS are carried
 * over is realloc's own guarantee and not visible here (assumed; bounded in api.*) */
void *realloc(void *ptr, size_t size)
__CPROVER_requires(size > 0)
__CPROVER_assigns()
__CPROVER_frees(ptr)
__CPROVER_ensures(__CPROVER_is_fresh(__CPROVER_return_value, size))
;
char *setGroupList(econf_file *key_file, const char *name)
__CPROVER_requires(key_file != NULL && key_file == sl.kf && name != NULL && sl.gf_calls == 0 && sd_n == 0)
__CPROVER_requires(key_file->group_count >= 0 && key_file->group_count < (1 << 20))
__CPROVER_assigns(key_file->group_count, key_file->groups, sl.gf_calls, sl.gf_name, sl.gf_kf, sd_n, sd_src0, sd_src1, sd_res0, sd_res1)
__CPROVER_frees(key_file->groups)
/* the list is asked first, with the caller's name */
__CPROVER_ensures(sl.gf_calls == 1 && sl.gf_name == name && sl.gf_kf == key_file)
/* a known name: the interned text is handed out, the list is untouched, nothing is allocated */
__CPROVER_ensures(sl.gf_ret != NULL ==>
                  (__CPROVER_return_value == sl.gf_ret && sd_n == 0 && key_file->group_count == __CPROVER_old(key_file->group_count) &&
                   key_file->groups == __CPROVER_old(key_file->groups)))
/* a new name: the list grows by exactly one slot, its LAST name is a private copy of the caller's name,
 * the terminator follows it, and that copy is handed out */
__CPROVER_ensures(sl.gf_ret == NULL ==>
                  (key_file->group_count == __CPROVER_old(key_file->group_count) + 1 && key_file->groups != NULL &&
                   sd_n == 1 && sd_src0 == name && key_file->groups[key_file->group_count - 1] == sd_res0 &&
                   key_file->groups[key_file->group_count] == NULL && __CPROVER_return_value == sd_res0 && sd_res0 != NULL))
;
