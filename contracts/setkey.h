/* Contracts for setKeyValue, new_key (static) and initialize (lib/helpers.c)
 * with their callees replaced by logging contracts: T1 (C11, C20). */
#pragma once
#include <stdlib.h>
#include <string.h>
#include "libeconf.h"
#include "keyfile.h"
#include "helpers.h"

struct sk_ghost {
  econf_file *kf; const char *group, *key; const void *value;
  int fk_calls; econf_err fk_ret; size_t fk_num; const char *fk_group, *fk_key;
  int nk_calls; econf_err nk_ret; const char *nk_group, *nk_key; size_t nk_newlen;
  int fn_calls; econf_file *fn_kf; size_t fn_num; const void *fn_value; econf_err fn_ret;
  int ap_calls; econf_err ap_ret; size_t ap_newlen;
  int sg_calls; size_t sg_num; econf_err sg_ret; int sk_calls; size_t sk_num; const char *sk_value; econf_err sk_ret;
  int gl_calls; const char *gl_name; char *gl_ret;
  int sd_calls;
};
extern struct sk_ghost sk;
#define IS_CODE(r) ((r) >= ECONF_SUCCESS && (r) <= ECONF_VALUE_CONVERSION_ERROR)

#ifdef PART_SETKEYVALUE
econf_err find_key(econf_file key_file, const char *group, const char *key, size_t *num)
__CPROVER_requires(num != NULL && sk.fk_calls == 0)
__CPROVER_assigns(*num, sk.fk_calls, sk.fk_group, sk.fk_key)
__CPROVER_ensures(sk.fk_calls == 1 && sk.fk_group == group && sk.fk_key == key && __CPROVER_return_value == sk.fk_ret)
__CPROVER_ensures(sk.fk_ret == ECONF_SUCCESS ==> (*num == sk.fk_num && *num < key_file.length))
;
static econf_err new_key(econf_file *key_file, const char *group, const char *key)
__CPROVER_requires(key_file != NULL && sk.nk_calls == 0 && key_file->length < ((size_t)1 << 40))
__CPROVER_assigns(key_file->length, sk.nk_calls, sk.nk_group, sk.nk_key)
__CPROVER_ensures(sk.nk_calls == 1 && sk.nk_group == group && sk.nk_key == key && __CPROVER_return_value == sk.nk_ret)
/* on success exactly one entry was appended */
__CPROVER_ensures(sk.nk_ret == ECONF_SUCCESS ==> key_file->length == __CPROVER_old(key_file->length) + 1)
__CPROVER_ensures(sk.nk_ret != ECONF_SUCCESS ==> key_file->length == __CPROVER_old(key_file->length))
;
econf_err sk_store(econf_file *kf, size_t num, const void *value)
__CPROVER_requires(kf != NULL && num < kf->length && sk.fn_calls == 0)
__CPROVER_assigns(sk.fn_calls, sk.fn_kf, sk.fn_num, sk.fn_value)
__CPROVER_ensures(sk.fn_calls == 1 && sk.fn_kf == kf && sk.fn_num == num && sk.fn_value == value && __CPROVER_return_value == sk.fn_ret)
;
econf_err setKeyValue(econf_err (*function)(econf_file *, size_t, const void *), econf_file *kf,
                      const char *group, const char *key, const void *value)
__CPROVER_requires(kf != NULL && kf == sk.kf && group == sk.group && key == sk.key && value == sk.value && function == sk_store)
__CPROVER_requires(kf->length < ((size_t)1 << 40))
__CPROVER_assigns(kf->length, sk)
/* C11: "a set creates or replaces exactly one entry": found -> store into that entry; not found -> append one
 * entry and store into the LAST one; any other lookup code -> refused, nothing stored, nothing appended */
__CPROVER_ensures(sk.fk_calls == 1 && sk.fk_group == group && sk.fk_key == key)
__CPROVER_ensures(sk.fk_ret == ECONF_SUCCESS ==>
                  (sk.nk_calls == 0 && sk.fn_calls == 1 && sk.fn_kf == kf && sk.fn_num == sk.fk_num && sk.fn_value == value &&
                   kf->length == __CPROVER_old(kf->length) && __CPROVER_return_value == sk.fn_ret))
__CPROVER_ensures((sk.fk_ret == ECONF_NOKEY && sk.nk_ret == ECONF_SUCCESS) ==>
                  (sk.nk_calls == 1 && sk.nk_group == group && sk.nk_key == key && sk.fn_calls == 1 && sk.fn_kf == kf &&
                   sk.fn_num == kf->length - 1 && kf->length == __CPROVER_old(kf->length) + 1 && sk.fn_value == value &&
                   __CPROVER_return_value == sk.fn_ret))
__CPROVER_ensures((sk.fk_ret == ECONF_NOKEY && sk.nk_ret != ECONF_SUCCESS) ==>
                  (sk.fn_calls == 0 && __CPROVER_return_value == sk.nk_ret))
__CPROVER_ensures((sk.fk_ret != ECONF_SUCCESS && sk.fk_ret != ECONF_NOKEY) ==>
                  (sk.nk_calls == 0 && sk.fn_calls == 0 && __CPROVER_return_value == sk.fk_ret &&
                   kf->length == __CPROVER_old(kf->length)))
;
#endif

#ifdef PART_INITIALIZE
char *setGroupList(econf_file *key_file, const char *name)
__CPROVER_requires(key_file != NULL && name != NULL && sk.gl_calls == 0)
__CPROVER_assigns(sk.gl_calls, sk.gl_name)
__CPROVER_ensures(sk.gl_calls == 1 && sk.gl_name == name && __CPROVER_return_value == sk.gl_ret)
;
void initialize(econf_file *key_file, size_t num)
__CPROVER_requires(key_file != NULL && key_file->file_entry != NULL && num < key_file->alloc_length)
__CPROVER_assigns(key_file->file_entry[num], sk)
/* C20: every field of the slot is determined (the extended getter later reads all of them) */
__CPROVER_ensures(key_file->file_entry[num].group == sk.gl_ret && sk.gl_calls == 1)
__CPROVER_ensures(key_file->file_entry[num].key != NULL && key_file->file_entry[num].value != NULL)
__CPROVER_ensures(key_file->file_entry[num].comment_before_key == NULL && key_file->file_entry[num].comment_after_value == NULL)
__CPROVER_ensures(key_file->file_entry[num].line_number == 0 && key_file->file_entry[num].quotes == false)
;
#endif
