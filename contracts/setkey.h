/* Contracts for setKeyValue, new_key (static) and initialize (lib/helpers.c)
 * with their callees replaced by logging contracts: T1 (C11, C20). */
#pragma once
#include <stdlib.h>
#include <string.h>
#include "libeconf.h"
#include "keyfile.h"
#include "helpers.h"

struct sk_ghost {
  econf_file *kf; const char *group, *key; const void *value;
  int fk_calls; econf_err fk_ret; size_t fk_num; const char *fk_group, *fk_key;
  int nk_calls; econf_err nk_ret; const char *nk_group, *nk_key; size_t nk_newlen;
  int fn_calls; econf_file *fn_kf; size_t fn_num; const void *fn_value; econf_err fn_ret;
  int ap_calls; econf_err ap_ret; size_t ap_newlen;
  int sg_calls; size_t sg_num; const char *sg_value; econf_err sg_ret; int sk_calls; size_t sk_num; const char *sk_value; econf_err sk_ret;
  int gl_calls; const char *gl_name; char *gl_ret;
  int sd_calls;
};
extern struct sk_ghost sk;
extern int sd_n;
extern const char *sd_src0, *sd_src1;
extern char *sd_res0, *sd_res1;
#define IS_CODE(r) ((r) >= ECONF_SUCCESS && (r) <= ECONF_VALUE_CONVERSION_ERROR)

#ifdef PART_SETKEYVALUE
econf_err find_key(econf_file key_file, const char *group, const char *key, size_t *num)
__CPROVER_requires(num != NULL && sk.fk_calls == 0)
__CPROVER_assigns(*num, sk.fk_calls, sk.fk_group, sk.fk_key)
__CPROVER_ensures(sk.fk_calls == 1 && sk.fk_group == group && sk.fk_key == key && __CPROVER_return_value == sk.fk_ret)
__CPROVER_ensures(sk.fk_ret == ECONF_SUCCESS ==> (*num == sk.fk_num && *num < key_file.length))
;
static econf_err new_key(econf_file *key_file, const char *group, const char *key)
__CPROVER_requires(key_file != NULL && sk.nk_calls == 0 && key_file->length < ((size_t)1 << 40))
__CPROVER_assigns(key_file->length, sk.nk_calls, sk.nk_group, sk.nk_key)
__CPROVER_ensures(sk.nk_calls == 1 && sk.nk_group == group && sk.nk_key == key && __CPROVER_return_value == sk.nk_ret)
/* on success exactly one entry was appended */
__CPROVER_ensures(sk.nk_ret == ECONF_SUCCESS ==> key_file->length == __CPROVER_old(key_file->length) + 1)
__CPROVER_ensures(sk.nk_ret != ECONF_SUCCESS ==> key_file->length == __CPROVER_old(key_file->length))
;
econf_err sk_store(econf_file *kf, size_t num, const void *value)
__CPROVER_requires(kf != NULL && num < kf->length && sk.fn_calls == 0)
__CPROVER_assigns(sk.fn_calls, sk.fn_kf, sk.fn_num, sk.fn_value)
__CPROVER_ensures(sk.fn_calls == 1 && sk.fn_kf == kf && sk.fn_num == num && sk.fn_value == value && __CPROVER_return_value == sk.fn_ret)
;
econf_err setKeyValue(econf_err (*function)(econf_file *, size_t, const void *), econf_file *kf,
                      const char *group, const char *key, const void *value)
__CPROVER_requires(kf != NULL && kf == sk.kf && group == sk.group && key == sk.key && value == sk.value && function == sk_store)
__CPROVER_requires(kf->length < ((size_t)1 << 40))
__CPROVER_assigns(kf->length, sk)
/* C11: "a set creates or replaces exactly one entry": found -> store into that entry; not found -> append one
 * entry and store into the LAST one; any other lookup code -> refused, nothing stored, nothing appended */
__CPROVER_ensures(sk.fk_calls == 1 && sk.fk_group == group && sk.fk_key == key)
__CPROVER_ensures(sk.fk_ret == ECONF_SUCCESS ==>
                  (sk.nk_calls == 0 && sk.fn_calls == 1 && sk.fn_kf == kf && sk.fn_num == sk.fk_num && sk.fn_value == value &&
                   kf->length == __CPROVER_old(kf->length) && __CPROVER_return_value == sk.fn_ret))
__CPROVER_ensures((sk.fk_ret == ECONF_NOKEY && sk.nk_ret == ECONF_SUCCESS) ==>
                  (sk.nk_calls == 1 && sk.nk_group == group && sk.nk_key == key && sk.fn_calls == 1 && sk.fn_kf == kf &&
                   sk.fn_num == kf->length - 1 && kf->length == __CPROVER_old(kf->length) + 1 && sk.fn_value == value &&
                   __CPROVER_return_value == sk.fn_ret))
__CPROVER_ensures((sk.fk_ret == ECONF_NOKEY && sk.nk_ret != ECONF_SUCCESS) ==>
                  (sk.fn_calls == 0 && __CPROVER_return_value == sk.nk_ret))
__CPROVER_ensures((sk.fk_ret != ECONF_SUCCESS && sk.fk_ret != ECONF_NOKEY) ==>
                  (sk.nk_calls == 0 && sk.fn_calls == 0 && __CPROVER_return_value == sk.fk_ret &&
                   kf->length == __CPROVER_old(kf->length)))
;
#endif

#ifdef PART_NEWKEY
/* new_key (static, lib/helpers.c) under contract; the harness reaches it through this forwarding
 * accessor, compiled into the helpers.c translation unit only. */
static econf_err new_key(econf_file *key_file, const char *group, const char *key);
#ifdef VERIF_TU_helpers
econf_err verif_new_key(econf_file *key_file, const char *group, const char *key) { return new_key(key_file, group, key); }
#else
econf_err verif_new_key(econf_file *key_file, const char *group, const char *key);
#endif
/* what new_key can observe of the PROVED growth contract (job append, contracts/growth.h): with a
 * non-NULL object exactly one more live entry, never more live entries than slots, success */
econf_err key_file_append(econf_file *kf)
__CPROVER_requires(kf != NULL && sk.ap_calls == 0 && kf->length <= kf->alloc_length && kf->alloc_length < ((size_t)1 << 40))
__CPROVER_assigns(kf->length, kf->alloc_length, kf->file_entry, sk.ap_calls)
__CPROVER_ensures(sk.ap_calls == 1 && __CPROVER_return_value == ECONF_SUCCESS)
__CPROVER_ensures(kf->length == __CPROVER_old(kf->length) + 1 && kf->length <= kf->alloc_length)
;
/* the two field setters log their arguments; they REQUIRE an index of a live entry and that the
 * entry was appended before (their own effect: jobs setkeyfn / setgroupfn) */
econf_err setGroup(econf_file *key_file, size_t num, const char *value)
__CPROVER_requires(key_file != NULL && value != NULL && num < key_file->length && sk.ap_calls == 1 && sk.sg_calls == 0)
__CPROVER_assigns(sk.sg_calls, sk.sg_num, sk.sg_value)
__CPROVER_ensures(sk.sg_calls == 1 && sk.sg_num == num && sk.sg_value == value && __CPROVER_return_value == sk.sg_ret)
;
econf_err setKey(econf_file *key_file, size_t num, const char *value)
__CPROVER_requires(key_file != NULL && value != NULL && num < key_file->length && sk.sg_calls == 1 && sk.sk_calls == 0)
__CPROVER_assigns(sk.sk_calls, sk.sk_num, sk.sk_value)
__CPROVER_ensures(sk.sk_calls == 1 && sk.sk_num == num && sk.sk_value == value && __CPROVER_return_value == sk.sk_ret)
;
static econf_err new_key(econf_file *key_file, const char *group, const char *key)
__CPROVER_requires(key_file == NULL || (key_file == sk.kf && key_file->length <= key_file->alloc_length &&
                                        key_file->alloc_length < ((size_t)1 << 40)))
__CPROVER_requires(sk.ap_calls == 0 && sk.sg_calls == 0 && sk.sk_calls == 0 && sd_n == 0)
__CPROVER_assigns(key_file != NULL: key_file->length, key_file->alloc_length, key_file->file_entry)
__CPROVER_assigns(sk, sd_n, sd_src0, sd_src1, sd_res0, sd_res1)
/* C11 "a set creates ... exactly one entry": a missing object or key is refused before anything is appended */
__CPROVER_ensures((key_file == NULL || key == NULL) ==>
                  (__CPROVER_return_value == ECONF_ERROR && sk.ap_calls == 0 && sk.sg_calls == 0 && sk.sk_calls == 0))
__CPROVER_ensures((key_file != NULL && key == NULL) ==> key_file->length == __CPROVER_old(key_file->length))
/* otherwise exactly one entry is appended and the LAST entry gets the section name - a private copy of
 * the caller's name, or of the placeholder for "no section" when the name is missing or empty - ... */
__CPROVER_ensures((key_file != NULL && key != NULL) ==>
                  (sk.ap_calls == 1 && key_file->length == __CPROVER_old(key_file->length) + 1 &&
                   sk.sg_calls == 1 && sk.sg_num == key_file->length - 1 && sd_n == 1 && sk.sg_value == sd_res0))
__CPROVER_ensures((key_file != NULL && key != NULL && group != NULL && *group != 0) ==> sd_src0 == group)
__CPROVER_ensures((key_file != NULL && key != NULL && (group == NULL || *group == 0)) ==>
                  (sd_src0 != group && sd_src0[0] == '_' && sd_src0[1] == 'n' && sd_src0[2] == 'o' && sd_src0[3] == 'n' &&
                   sd_src0[4] == 'e' && sd_src0[5] == '_' && sd_src0[6] == 0))
/* ... and then the caller's key; a failing section setter ends the call with its code */
__CPROVER_ensures((key_file != NULL && key != NULL && sk.sg_ret == ECONF_SUCCESS) ==>
                  (sk.sk_calls == 1 && sk.sk_num == key_file->length - 1 && sk.sk_value == key &&
                   __CPROVER_return_value == sk.sk_ret))
__CPROVER_ensures((key_file != NULL && key != NULL && sk.sg_ret != ECONF_SUCCESS) ==>
                  (sk.sk_calls == 0 && __CPROVER_return_value == sk.sg_ret))
;
#endif

#ifdef PART_FIELDSET
/* setKey / setGroup (lib/keyfile.c): the field setters new_key relies on, any array size, any index */
char *setGroupList(econf_file *key_file, const char *name)
__CPROVER_requires(key_file != NULL && name != NULL && sk.gl_calls == 0)
__CPROVER_assigns(sk.gl_calls, sk.gl_name)
__CPROVER_ensures(sk.gl_calls == 1 && sk.gl_name == name && __CPROVER_return_value == sk.gl_ret)
;
econf_err setKey(econf_file *key_file, size_t num, const char *value)
__CPROVER_requires(key_file == NULL || (key_file->file_entry != NULL && num < key_file->alloc_length))
__CPROVER_requires(sd_n == 0)
__CPROVER_assigns(key_file != NULL && value != NULL: key_file->file_entry[num].key)
__CPROVER_assigns(sd_n, sd_src0, sd_src1, sd_res0, sd_res1)
__CPROVER_frees(key_file != NULL && value != NULL: key_file->file_entry[num].key)
/* a missing object or name is refused without effect */
__CPROVER_ensures((key_file == NULL || value == NULL) ==> (__CPROVER_return_value == ECONF_ERROR && sd_n == 0))
/* otherwise the entry's key becomes a private copy of the caller's text (the old one is released: frees
 * clause + memory-leak check) and nothing else of the object changes (frame) */
__CPROVER_ensures((key_file != NULL && value != NULL) ==>
                  (__CPROVER_return_value == ECONF_SUCCESS && sd_n == 1 && sd_src0 == value &&
                   key_file->file_entry[num].key == sd_res0 && sd_res0 != NULL))
;
econf_err setGroup(econf_file *key_file, size_t num, const char *value)
__CPROVER_requires(key_file == NULL || (key_file->file_entry != NULL && num < key_file->alloc_length))
__CPROVER_requires(sk.gl_calls == 0)
__CPROVER_assigns(key_file != NULL && value != NULL: key_file->file_entry[num].group)
__CPROVER_assigns(sk.gl_calls, sk.gl_name)
__CPROVER_ensures((key_file == NULL || value == NULL) ==> (__CPROVER_return_value == ECONF_ERROR && sk.gl_calls == 0))
/* the section name is interned in the object's section list and the entry points at the interned
 * text - it never owns it (C20: entries of one section share the name) */
__CPROVER_ensures((key_file != NULL && value != NULL) ==>
                  (sk.gl_calls == 1 && sk.gl_name == value && key_file->file_entry[num].group == sk.gl_ret &&
                   __CPROVER_return_value == (sk.gl_ret != NULL ? ECONF_SUCCESS : ECONF_NOMEM)))
;
#endif

#ifdef PART_INITIALIZE
char *setGroupList(econf_file *key_file, const char *name)
__CPROVER_requires(key_file != NULL && name != NULL && sk.gl_calls == 0)
__CPROVER_assigns(sk.gl_calls, sk.gl_name)
__CPROVER_ensures(sk.gl_calls == 1 && sk.gl_name == name && __CPROVER_return_value == sk.gl_ret)
;
void initialize(econf_file *key_file, size_t num)
__CPROVER_requires(key_file != NULL && key_file->file_entry != NULL && num < key_file->alloc_length)
__CPROVER_assigns(key_file->file_entry[num], sk)
/* C20: every field of the slot is determined (the extended getter later reads all of them) */
__CPROVER_ensures(key_file->file_entry[num].group == sk.gl_ret && sk.gl_calls == 1)
__CPROVER_ensures(key_file->file_entry[num].key != NULL && key_file->file_entry[num].value != NULL)
__CPROVER_ensures(key_file->file_entry[num].comment_before_key == NULL && key_file->file_entry[num].comment_after_value == NULL)
__CPROVER_ensures(key_file->file_entry[num].line_number == 0 && key_file->file_entry[num].quotes == false)
;
#endif
