/* Contracts for the numeric per-entry getters and setters of lib/keyfile.c
 * under the numeric-text axioms of stubs/numtext.c (DESIGN.md 4.4).
 * Side-car: the real definitions pick these up through -include. */
#pragma once
#include <stdint.h>
#include "libeconf.h"
#include "keyfile.h"
#include "numtext.h"
#include "asprintf_shim.h"

#define IS_CODE(r) ((r) >= ECONF_SUCCESS && (r) <= ECONF_VALUE_CONVERSION_ERROR)

/* what entry[num].value is, in terms of the ghost tag */
#define VAL(kf, num) ((kf).file_entry[num].value)
#define IS_ABSENT(kf, num) (VAL(kf, num) == NULL)
#define IS_TAGGED(kf, num, K) (VAL(kf, num) != NULL && VAL(kf, num) == g_tag_ptr && g_tag_kind == (K))

/* C09: "each integer getter returns the literal's mathematical value when the
 * result type can represent it and a conversion error otherwise, never a
 * wrapped or truncated number"; "for a key that has no value ... the numeric
 * getters answer with an error code".  C10: frame = *result (and errno). */
#define INT_GETTER_CONTRACT(NAME, T, TMIN, TMAX)                               \
econf_err NAME(econf_file key_file, size_t num, T *result)                     \
__CPROVER_requires(num < key_file.length && key_file.length <= key_file.alloc_length) \
__CPROVER_assigns(*result, g_nt.err)                                            \
__CPROVER_ensures(IS_CODE(__CPROVER_return_value))                             \
__CPROVER_ensures(IS_TAGGED(key_file, num, TAG_INT) ==>                        \
   ((__CPROVER_return_value == ECONF_SUCCESS) ==                               \
    (g_tag_int >= (__int128)(TMIN) && g_tag_int <= (__int128)(TMAX))))         \
__CPROVER_ensures((IS_TAGGED(key_file, num, TAG_INT) &&                        \
                   __CPROVER_return_value == ECONF_SUCCESS) ==>                \
                  ((__int128)*result == g_tag_int))                            \
__CPROVER_ensures(IS_ABSENT(key_file, num) ==> __CPROVER_return_value != ECONF_SUCCESS) \
;

INT_GETTER_CONTRACT(getIntValueNum, int32_t, INT32_MIN, INT32_MAX)
INT_GETTER_CONTRACT(getInt64ValueNum, int64_t, INT64_MIN, INT64_MAX)
INT_GETTER_CONTRACT(getUIntValueNum, uint32_t, 0, UINT32_MAX)
INT_GETTER_CONTRACT(getUInt64ValueNum, uint64_t, 0, UINT64_MAX)

/* same value, same sign of zero; NaN compared as NaN */
#define SAME_FP(a, b, SA, SB) (((b) != (b)) ? ((a) != (a)) : ((a) == (b) && SA(a) == SB(b)))

/* C09: "the floating getters return the correctly rounded value of every
 * decimal literal": the result is exactly the ghost constant the strtof /
 * strtod axiom returns for this literal - or the getter refuses (it must not
 * refuse when the conversion reports no range error).
 * C08: text printed by the matching setter (TAG_FP with enough digits) comes
 * back as exactly the printed value. */
#define FP_GETTER_CONTRACT(NAME, T, GHOST, SIGN, DIG, REPR)                    \
econf_err NAME(econf_file key_file, size_t num, T *result)                     \
__CPROVER_requires(num < key_file.length && key_file.length <= key_file.alloc_length) \
__CPROVER_assigns(*result, g_nt.err)                                            \
__CPROVER_ensures(IS_CODE(__CPROVER_return_value))                             \
__CPROVER_ensures((IS_TAGGED(key_file, num, TAG_DEC) &&                        \
                   __CPROVER_return_value == ECONF_SUCCESS) ==>                \
                  SAME_FP(*result, GHOST, SIGN, SIGN))                         \
__CPROVER_ensures((IS_TAGGED(key_file, num, TAG_DEC) && g_errno_of_literal == 0) ==> \
                  __CPROVER_return_value == ECONF_SUCCESS)                     \
__CPROVER_ensures((IS_TAGGED(key_file, num, TAG_FP) && g_tag_prec >= (DIG) && REPR(g_tag_fp)) ==> \
                  (__CPROVER_return_value == ECONF_SUCCESS &&                  \
                   SAME_FP((double)*result, g_tag_fp, __CPROVER_signd, __CPROVER_signd))) \
__CPROVER_ensures(IS_ABSENT(key_file, num) ==> __CPROVER_return_value != ECONF_SUCCESS) \
;
extern int g_errno_of_literal; /* errno strtof/strtod report for this literal */
#define REPR_FLOAT(d) ((d) != (d) || (double)(float)(d) == (d))
#define REPR_DOUBLE(d) (1)
FP_GETTER_CONTRACT(getFloatValueNum, float, g_round_float, __CPROVER_signf, 9, REPR_FLOAT)
FP_GETTER_CONTRACT(getDoubleValueNum, double, g_round_double, __CPROVER_signd, 17, REPR_DOUBLE)

/* C08 setters: the stored text spells exactly *v read as the setter's own
 * type; nothing but entry[num].value changes; the old text is released. */
#define SETTER_FRAME ef->file_entry[num].value, NUMTEXT_GHOST
#define INT_SETTER_CONTRACT(NAME, T)                                           \
econf_err NAME(econf_file *ef, size_t num, const void *v)                      \
__CPROVER_requires(num < ef->alloc_length)                                     \
__CPROVER_assigns(SETTER_FRAME)                                                \
__CPROVER_frees(ef->file_entry[num].value)                                     \
__CPROVER_ensures(__CPROVER_return_value == ECONF_SUCCESS)                     \
__CPROVER_ensures(IS_TAGGED(*ef, num, TAG_INT))                                \
__CPROVER_ensures(g_tag_int == (__int128)*(const T *)v)                        \
;
INT_SETTER_CONTRACT(setIntValueNum, int32_t)
INT_SETTER_CONTRACT(setInt64ValueNum, int64_t)
INT_SETTER_CONTRACT(setUIntValueNum, uint32_t)
INT_SETTER_CONTRACT(setUInt64ValueNum, uint64_t)

#define FP_SETTER_CONTRACT(NAME, T, DIG, SIGN)                                 \
econf_err NAME(econf_file *ef, size_t num, const void *v)                      \
__CPROVER_requires(num < ef->alloc_length)                                     \
__CPROVER_assigns(SETTER_FRAME)                                                \
__CPROVER_frees(ef->file_entry[num].value)                                     \
__CPROVER_ensures(__CPROVER_return_value == ECONF_SUCCESS)                     \
__CPROVER_ensures(IS_TAGGED(*ef, num, TAG_FP))                                 \
__CPROVER_ensures(g_tag_prec >= (DIG))                                         \
__CPROVER_ensures(SAME_FP(g_tag_fp, (double)*(const T *)v, __CPROVER_signd, __CPROVER_signd)) \
;
FP_SETTER_CONTRACT(setFloatValueNum, float, 9, __CPROVER_signf)
FP_SETTER_CONTRACT(setDoubleValueNum, double, 17, __CPROVER_signd)
