/* Contracts for the two-directory entry points econf_readDirs and
 * econf_readDirsWithCallback (lib/libeconf.c)  -  C12 C06 C20 (C01: the two
 * layers and their order).
 *
 * readConfigWithCallback and econf_freeFile are REPLACED by the contracts of
 * contracts/rcwc.h (readConfigWithCallback's is the one job rcwc proves).
 * Shown here: the entry point builds an object whose layer list is exactly
 * (copy of the distribution directory or "", copy of the /etc directory or
 * ""), with no options and no drop-in list of its own; hands name, suffix,
 * delimiters, comment set, the PROCESS-WIDE drop-in directory list and the
 * callback/data (none for the plain variant) to the merged reader unchanged;
 * returns its code; after a failure nothing is handed back and both the
 * placeholder object and a partial merge result are released exactly once.
 * econf_newKeyFile_with_options(.., "") is replaced by an ASSUMED contract
 * (fresh zeroed object or ECONF_NOMEM; bounded evidence: jobs options.*). */
#pragma once
extern int sd_n;
extern const char *sd_src0, *sd_src1;
extern char *sd_res0, *sd_res1;
#define RCWC_EXTRA_REQUIRES \
__CPROVER_requires((*result)->parse_dirs_count == 2 && (*result)->parse_dirs != NULL && (*result)->conf_count == 0 && \
                   !(*result)->join_same_entries && !(*result)->python_style) \
__CPROVER_requires(sd_n == 2 && (*result)->parse_dirs[0] == sd_res0 && (*result)->parse_dirs[1] == sd_res1 && \
                   (*result)->parse_dirs[2] == NULL) \
__CPROVER_requires(rc.dist != NULL ? sd_src0 == rc.dist : (sd_src0 != NULL && sd_src0[0] == 0)) \
__CPROVER_requires(rc.etc != NULL ? sd_src1 == rc.etc : (sd_src1 != NULL && sd_src1[0] == 0))
#include "rcwc.h"

#ifdef VERIF_TU_libeconf
/* the process-wide drop-in directory list is file-static: accessors for the harness */
static char **conf_dirs;
static int conf_count;
char **verif_process_conf_dirs(void) { return conf_dirs; }
int verif_process_conf_count(void) { return conf_count; }
#else
char **verif_process_conf_dirs(void);
int verif_process_conf_count(void);
#endif

econf_err econf_newKeyFile_with_options(econf_file **result, const char *options)
__CPROVER_requires(result != NULL && options != NULL && options[0] == 0)
__CPROVER_requires(rc.obj == NULL)
__CPROVER_assigns(*result, rc.obj)
__CPROVER_ensures(__CPROVER_return_value == ECONF_SUCCESS || __CPROVER_return_value == ECONF_NOMEM)
__CPROVER_ensures(__CPROVER_return_value == ECONF_SUCCESS ==>
                  (__CPROVER_is_fresh(*result, sizeof(econf_file)) && rc.obj == *result &&
                   (*result)->parse_dirs == NULL && (*result)->parse_dirs_count == 0 &&
                   (*result)->conf_dirs == NULL && (*result)->conf_count == 0 &&
                   !(*result)->join_same_entries && !(*result)->python_style))
__CPROVER_ensures(__CPROVER_return_value != ECONF_SUCCESS ==> (*result == NULL && rc.obj == NULL))
;

#define DIRS_REQUIRES \
__CPROVER_requires(__CPROVER_is_fresh(result, sizeof(*result))) \
__CPROVER_requires(dist_conf_dir == rc.dist && etc_conf_dir == rc.etc && config_name == rc.name && \
                   config_suffix == rc.suffix && delim == rc.delim && comment == rc.comment) \
__CPROVER_requires(rc.obj == NULL && rc.hist_calls == 0 && rc.merge_calls == 0 && rc.free_calls == 0 && \
                   rc.mfree_calls == 0 && rc.hist_array == NULL && sd_n == 0) \
__CPROVER_assigns(*result, rc, sd_n, sd_src0, sd_src1, sd_res0, sd_res1)

#define DIRS_ENSURES \
__CPROVER_ensures(IS_CODE(__CPROVER_return_value)) \
__CPROVER_ensures(rc.obj == NULL ==> (__CPROVER_return_value == ECONF_NOMEM && *result == NULL && rc.hist_calls == 0)) \
/* C12: exactly one layered read, with the arguments the replaced contract demands */ \
__CPROVER_ensures(rc.obj != NULL ==> rc.hist_calls == 1) \
/* C06/C20: a failing file: its code, nothing merged, nothing handed back, the object released once */ \
__CPROVER_ensures((rc.obj != NULL && rc.hist_ret != ECONF_SUCCESS) ==> \
                  (__CPROVER_return_value == rc.hist_ret && rc.merge_calls == 0 && *result == NULL && \
                   rc.free_calls == 1 && rc.freed == rc.obj && rc.mfree_calls == 0)) \
/* success: the merge result is handed back, the placeholder released once */ \
__CPROVER_ensures((rc.obj != NULL && rc.hist_ret == ECONF_SUCCESS && rc.merge_ret == ECONF_SUCCESS) ==> \
                  (__CPROVER_return_value == ECONF_SUCCESS && rc.merge_calls == 1 && *result == rc.merge_result && \
                   rc.free_calls == 1 && rc.freed == rc.obj && rc.mfree_calls == 0)) \
/* a failing merge: its code, nothing handed back, a partial result released once */ \
__CPROVER_ensures((rc.obj != NULL && rc.hist_ret == ECONF_SUCCESS && rc.merge_ret != ECONF_SUCCESS) ==> \
                  (__CPROVER_return_value == rc.merge_ret && *result == NULL && rc.free_calls == 1 && rc.freed == rc.obj && \
                   (rc.merge_result != NULL ==> rc.mfree_calls == 1))) \
__CPROVER_ensures(__CPROVER_return_value != ECONF_SUCCESS ==> *result == NULL)

econf_err econf_readDirsWithCallback(econf_file **result, const char *dist_conf_dir, const char *etc_conf_dir,
                                     const char *config_name, const char *config_suffix,
                                     const char *delim, const char *comment,
                                     bool (*callback)(const char *filename, const void *data),
                                     const void *callback_data)
DIRS_REQUIRES
__CPROVER_requires(callback == rc.cb && callback_data == rc.cb_data)
DIRS_ENSURES
;

econf_err econf_readDirs(econf_file **result, const char *dist_conf_dir, const char *etc_conf_dir,
                         const char *config_name, const char *config_suffix,
                         const char *delim, const char *comment)
DIRS_REQUIRES
/* the plain variant has no callback */
__CPROVER_requires(rc.cb == NULL && rc.cb_data == NULL)
DIRS_ENSURES
;
