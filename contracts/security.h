/* C16: exact post-state of the process-wide restriction setters of
 * lib/libeconf.c; the frame says nothing else is written. */
#pragma once
#include "libeconf.h"
#include "getfilecontents.h"
#include "keyfile.h"

void econf_requireOwner(uid_t owner)
__CPROVER_assigns(file_owner_set, file_owner)
__CPROVER_ensures(file_owner_set && file_owner == owner);

void econf_requireGroup(gid_t group)
__CPROVER_assigns(file_group_set, file_group)
__CPROVER_ensures(file_group_set && file_group == group);

void econf_requirePermissions(mode_t file_perms, mode_t dir_perms)
__CPROVER_assigns(file_permissions_set, file_perms_file, file_perms_dir)
__CPROVER_ensures(file_permissions_set && file_perms_file == file_perms && file_perms_dir == dir_perms);

void econf_followSymlinks(bool allow)
__CPROVER_assigns(allow_follow_symlinks)
__CPROVER_ensures(allow_follow_symlinks == allow);

/* "After the reset call all files are accepted again" */
void econf_reset_security_settings(void)
__CPROVER_assigns(file_owner_set, file_group_set, file_permissions_set, allow_follow_symlinks)
__CPROVER_ensures(!file_owner_set && !file_group_set && !file_permissions_set && allow_follow_symlinks);

/* C07/C10: the delimiter / comment tags of an object (lib/libeconf.c) */
char econf_comment_tag(econf_file *key_file)
__CPROVER_assigns()
__CPROVER_ensures(__CPROVER_return_value == (key_file ? key_file->comment : 0));
char econf_delimiter_tag(econf_file *key_file)
__CPROVER_assigns()
__CPROVER_ensures(__CPROVER_return_value == (key_file ? key_file->delimiter : 0));
void econf_set_comment_tag(econf_file *key_file, const char comment)
__CPROVER_assigns(key_file != NULL: key_file->comment)
__CPROVER_ensures(key_file == NULL || key_file->comment == comment);
void econf_set_delimiter_tag(econf_file *key_file, const char delimiter)
__CPROVER_assigns(key_file != NULL: key_file->delimiter)
__CPROVER_ensures(key_file == NULL || key_file->delimiter == delimiter);
