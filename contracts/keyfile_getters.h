/* Contracts for the per-entry getters of lib/keyfile.c (side-car: the real
 * definitions in /repo/lib/keyfile.c pick these up through -include). */
#pragma once
#include "libeconf.h"
#include "keyfile.h"

/* ghost: classification of the stored text by the harness-side spec function
 * (contracts/spec.h) before the call: 1 true word, 0 false word / empty,
 * -1 other text, -2 the entry has no value (bare key) */
extern int g_bool_class;

/* C09 "succeeds exactly on ... and fails on every other text";
 * C10 "queries never change the configuration": frame = *result only. */
econf_err getBoolValueNum(econf_file key_file, size_t num, bool *result)
__CPROVER_requires(num < key_file.length && key_file.length <= key_file.alloc_length)
__CPROVER_assigns(*result)
__CPROVER_ensures(g_bool_class >= -1 ==>
                  ((__CPROVER_return_value == ECONF_SUCCESS) == (g_bool_class >= 0)))
__CPROVER_ensures((g_bool_class >= 0 && __CPROVER_return_value == ECONF_SUCCESS) ==>
                  (*result == (g_bool_class == 1)))
__CPROVER_ensures(__CPROVER_return_value >= ECONF_SUCCESS &&
                  __CPROVER_return_value <= ECONF_VALUE_CONVERSION_ERROR)
;

/* C08 "every accepted boolean spelling ... storing the value with the typed
 * setter and fetching it with the matching getter returns exactly the stored
 * value": the boolean setter canonicalises the six words (any letter case)
 * to true/false.  g_bool_class as above, for the text handed to the setter.
 * Other texts (incl. the empty one) may be refused or accepted: unspecified. */
extern const char *g_set_value;   /* entry[num].value before the call */
econf_err setBoolValueNum(econf_file *kf, size_t num, const void *v)
__CPROVER_requires(kf != NULL && num < kf->alloc_length)
__CPROVER_assigns(kf->file_entry[num].value)
__CPROVER_frees(kf->file_entry[num].value)
__CPROVER_ensures((g_bool_class == 1 || g_bool_class == 0) ==> __CPROVER_return_value == ECONF_SUCCESS)
__CPROVER_ensures(g_bool_class == 1 ==> (kf->file_entry[num].value != NULL &&
   kf->file_entry[num].value[0] == 't' && kf->file_entry[num].value[1] == 'r' && kf->file_entry[num].value[2] == 'u' &&
   kf->file_entry[num].value[3] == 'e' && kf->file_entry[num].value[4] == 0))
__CPROVER_ensures(g_bool_class == 0 ==> (kf->file_entry[num].value != NULL &&
   kf->file_entry[num].value[0] == 'f' && kf->file_entry[num].value[1] == 'a' && kf->file_entry[num].value[2] == 'l' &&
   kf->file_entry[num].value[3] == 's' && kf->file_entry[num].value[4] == 'e' && kf->file_entry[num].value[5] == 0))
__CPROVER_ensures(__CPROVER_return_value != ECONF_SUCCESS ==> kf->file_entry[num].value == g_set_value)
;
