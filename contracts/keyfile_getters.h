/* Contracts for the per-entry getters of lib/keyfile.c (side-car: the real
 * definitions in /repo/lib/keyfile.c pick these up through -include). */
#pragma once
#include "libeconf.h"
#include "keyfile.h"

/* ghost: classification of the stored text by the harness-side spec function
 * (contracts/spec.h) before the call: 1 true word, 0 false word / empty,
 * -1 other text, -2 the entry has no value (bare key) */
extern int g_bool_class;

/* C09 "succeeds exactly on ... and fails on every other text";
 * C10 "queries never change the configuration": frame = *result only. */
econf_err getBoolValueNum(econf_file key_file, size_t num, bool *result)
__CPROVER_requires(num < key_file.length && key_file.length <= key_file.alloc_length)
__CPROVER_assigns(*result)
__CPROVER_ensures(g_bool_class >= -1 ==>
                  ((__CPROVER_return_value == ECONF_SUCCESS) == (g_bool_class >= 0)))
__CPROVER_ensures((g_bool_class >= 0 && __CPROVER_return_value == ECONF_SUCCESS) ==>
                  (*result == (g_bool_class == 1)))
__CPROVER_ensures(__CPROVER_return_value >= ECONF_SUCCESS &&
                  __CPROVER_return_value <= ECONF_VALUE_CONVERSION_ERROR)
;
