/* Contract for econf_mergeFiles (lib/libeconf.c, loop-free) with its three
 * workers replaced by contracts that log their arguments (their behaviour is
 * decided by the bounded merge.* jobs).  C03 (hand-over of the counts, tags
 * from the base, no path), C10 (frame: only *merged_file is written). */
#pragma once
#include "libeconf.h"
#include "keyfile.h"
#include "mergefiles.h"

struct mt_ghost {
  econf_file *usr, *etc;
  int ins_calls, mrg_calls, add_calls;
  econf_file *ins_dest, *ins_ef; struct file_entry **ins_fe; size_t ins_ret;
  econf_file *mrg_dest, *mrg_uf, *mrg_ef; size_t mrg_start, mrg_ret;
  econf_file *add_dest, *add_uf, *add_ef; size_t add_start, add_ret; struct file_entry *add_fe_out;
};
extern struct mt_ghost mt;

size_t insert_nogroup(econf_file *dest_kf, struct file_entry **fe, econf_file *ef)
__CPROVER_requires(mt.ins_calls == 0 && mt.mrg_calls == 0 && fe != NULL && *fe != NULL)
__CPROVER_assigns(mt.ins_calls, mt.ins_dest, mt.ins_ef, mt.ins_fe)
__CPROVER_ensures(mt.ins_calls == 1 && mt.ins_dest == dest_kf && mt.ins_ef == ef && mt.ins_fe == fe)
__CPROVER_ensures(__CPROVER_return_value == mt.ins_ret)
;
size_t merge_existing_groups(econf_file *dest_kf, struct file_entry **fe, econf_file *uf, econf_file *ef, const size_t etc_start)
__CPROVER_requires(mt.mrg_calls == 0 && mt.add_calls == 0 && fe != NULL && *fe != NULL)
__CPROVER_assigns(mt.mrg_calls, mt.mrg_dest, mt.mrg_uf, mt.mrg_ef, mt.mrg_start)
__CPROVER_ensures(mt.mrg_calls == 1 && mt.mrg_dest == dest_kf && mt.mrg_uf == uf && mt.mrg_ef == ef && mt.mrg_start == etc_start)
__CPROVER_ensures(__CPROVER_return_value == mt.mrg_ret)
;
size_t add_new_groups(econf_file *dest_kf, struct file_entry **fe, econf_file *uf, econf_file *ef, const size_t merge_length)
__CPROVER_requires(mt.add_calls == 0 && mt.mrg_calls == 1 && fe != NULL && *fe != NULL)
__CPROVER_assigns(*fe, mt.add_calls, mt.add_dest, mt.add_uf, mt.add_ef, mt.add_start)
__CPROVER_ensures(mt.add_calls == 1 && mt.add_dest == dest_kf && mt.add_uf == uf && mt.add_ef == ef && mt.add_start == merge_length)
__CPROVER_ensures(__CPROVER_return_value == mt.add_ret && *fe == mt.add_fe_out)
;

#define FIRST_GROUPLESS(f) ((f)->length == 0 || strcmp((f)->file_entry->group, "_none_") == 0)
econf_err econf_mergeFiles(econf_file **merged_file, econf_file *usr_file, econf_file *etc_file)
__CPROVER_requires(merged_file != NULL && usr_file == mt.usr && etc_file == mt.etc)
__CPROVER_assigns(*merged_file, mt)
__CPROVER_ensures((usr_file == NULL || etc_file == NULL) ==>
                  (__CPROVER_return_value == ECONF_ERROR && *merged_file == NULL && mt.mrg_calls == 0))
__CPROVER_ensures((usr_file != NULL && etc_file != NULL) ==>
   (__CPROVER_return_value == ECONF_SUCCESS && *merged_file != NULL &&
    /* leading group-less override entries are copied first exactly when the base does not start group-less */
    (mt.ins_calls == 1) == ((etc_file->length == 0 || FIRST_GROUPLESS(etc_file)) && (usr_file->length == 0 || !FIRST_GROUPLESS(usr_file))) &&
    mt.mrg_calls == 1 && mt.add_calls == 1 &&
    mt.mrg_dest == *merged_file && mt.mrg_uf == usr_file && mt.mrg_ef == etc_file &&
    mt.mrg_start == (mt.ins_calls ? mt.ins_ret : 0) &&
    mt.add_dest == *merged_file && mt.add_uf == usr_file && mt.add_ef == etc_file && mt.add_start == mt.mrg_ret &&
    /* the counts are handed over; the result carries the base's tags and no path */
    (*merged_file)->length == mt.add_ret && (*merged_file)->alloc_length == mt.add_ret &&
    (*merged_file)->file_entry == mt.add_fe_out &&
    (*merged_file)->delimiter == usr_file->delimiter && (*merged_file)->comment == usr_file->comment &&
    (*merged_file)->path == NULL))
;
