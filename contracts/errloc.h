/* The error-location accessors (C13): last_scanned_file()
 * (lib/getfilecontents.c) hands out a COPY of the recorded file name and the
 * recorded line number and changes neither; econf_errLocation()
 * (lib/econf_error.c) is that accessor with the caller's out-parameters. */
#pragma once
#include <stdint.h>
#include <limits.h>
#include "libeconf.h"
#include "getfilecontents.h"
extern int sd_n;
extern const char *sd_src0, *sd_src1;
extern char *sd_res0, *sd_res1;
struct el_ghost { char **fn; uint64_t *ln; int calls; };
extern struct el_ghost el;

#ifdef VERIF_TU_getfilecontents
static uint64_t last_scanned_line_nr;
static char last_scanned_filename[PATH_MAX];
uint64_t verif_last_line(void) { return last_scanned_line_nr; }
const char *verif_last_name(void) { return last_scanned_filename; }
#else
uint64_t verif_last_line(void);
const char *verif_last_name(void);
#endif

#ifdef PART_LSF
void last_scanned_file(char **filename, uint64_t *line_nr)
__CPROVER_requires(__CPROVER_is_fresh(filename, sizeof(*filename)) && __CPROVER_is_fresh(line_nr, sizeof(*line_nr)))
__CPROVER_requires(sd_n == 0)
__CPROVER_assigns(*filename, *line_nr, sd_n, sd_src0, sd_src1, sd_res0, sd_res1)
/* a copy of the recorded name (the caller owns it), the recorded line; the record itself is not in the frame */
__CPROVER_ensures(sd_n == 1 && *filename == sd_res0 && sd_src0 == verif_last_name())
__CPROVER_ensures(*line_nr == verif_last_line())
;
#endif
#ifdef PART_ERRLOC
void last_scanned_file(char **filename, uint64_t *line_nr)
__CPROVER_requires(el.calls == 0 && filename == el.fn && line_nr == el.ln)
__CPROVER_assigns(el.calls)
__CPROVER_ensures(el.calls == 1)
;
void econf_errLocation(char **filename, uint64_t *line_nr)
__CPROVER_requires(el.calls == 0 && filename == el.fn && line_nr == el.ln)
__CPROVER_assigns(el.calls)
__CPROVER_ensures(el.calls == 1)
;
#endif
