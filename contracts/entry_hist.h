/* Contracts for the two-directory HISTORY entry points econf_readDirsHistory
 * and econf_readDirsHistoryWithCallback (lib/libeconf.c)  -  C12 C06 C20.
 *
 * readConfigHistoryWithCallback is REPLACED by an ASSUMED contract that only
 * records what it is given and hands back the environment's answer (its real
 * behaviour is the subject of the bounded jobs history.* / dropins.*).  Shown
 * here: the entry point passes the layer list (copy of the distribution dir
 * or "", copy of the /etc dir or "") of length 2, name, suffix, delimiters,
 * comment set, NO options, the PROCESS-WIDE drop-in directory list and the
 * callback/data (none for the plain variant); returns the reader's code and
 * leaves the reader's out-parameters as the reader set them; releases its
 * private layer list (econf_freeArray, real code, unwound). */
#pragma once
#include "libeconf.h"
#include "keyfile.h"
#include "readconfig.h"
extern int sd_n;
extern const char *sd_src0, *sd_src1;
extern char *sd_res0, *sd_res1;

struct eh_ghost {
  const char *dist, *etc, *name, *suffix, *delim, *comment;
  char **dirs; int ndirs;          /* process-wide drop-in dir list */
  bool (*cb)(const char *, const void *);
  const void *cb_data;
  econf_file ***out; size_t *out_size;
  int hist_calls; econf_err hist_ret; econf_file **hist_array; size_t hist_size;
};
extern struct eh_ghost eh;
#define IS_CODE(r) ((r) >= ECONF_SUCCESS && (r) <= ECONF_VALUE_CONVERSION_ERROR)

#ifdef VERIF_TU_libeconf
static char **conf_dirs;
static int conf_count;
char **verif_process_conf_dirs(void) { return conf_dirs; }
int verif_process_conf_count(void) { return conf_count; }
#else
char **verif_process_conf_dirs(void);
int verif_process_conf_count(void);
#endif

econf_err readConfigHistoryWithCallback(econf_file ***key_files, size_t *size, char **parse_dirs,
					const int parse_dirs_count, const char *config_name,
					const char *config_suffix, const char *delim, const char *comment,
					const bool join_same_entries, const bool python_style,
					char **cdirs, const int ccount,
					bool (*callback)(const char *filename, const void *data),
					const void *callback_data)
__CPROVER_requires(eh.hist_calls == 0 && key_files == eh.out && size == eh.out_size)
/* C12/C01: two layers, distribution directory first */
__CPROVER_requires(parse_dirs_count == 2 && parse_dirs != NULL && sd_n == 2 &&
                   parse_dirs[0] == sd_res0 && parse_dirs[1] == sd_res1 && parse_dirs[2] == NULL)
__CPROVER_requires(eh.dist != NULL ? sd_src0 == eh.dist : (sd_src0 != NULL && sd_src0[0] == 0))
__CPROVER_requires(eh.etc != NULL ? sd_src1 == eh.etc : (sd_src1 != NULL && sd_src1[0] == 0))
__CPROVER_requires(config_name == eh.name && config_suffix == eh.suffix && delim == eh.delim && comment == eh.comment)
__CPROVER_requires(!join_same_entries && !python_style)
__CPROVER_requires(cdirs == eh.dirs && ccount == eh.ndirs)
/* C06 */
__CPROVER_requires(callback == eh.cb && callback_data == eh.cb_data)
__CPROVER_assigns(*key_files, *size, eh.hist_calls)
__CPROVER_ensures(eh.hist_calls == 1 && __CPROVER_return_value == eh.hist_ret)
__CPROVER_ensures(eh.hist_ret == ECONF_SUCCESS ? (*key_files == eh.hist_array && *size == eh.hist_size)
                                               : (*key_files == NULL))
;

#define HIST_REQUIRES \
__CPROVER_requires(key_files != NULL && size != NULL && key_files == eh.out && size == eh.out_size) \
__CPROVER_requires(dist_conf_dir == eh.dist && etc_conf_dir == eh.etc && config_name == eh.name && \
                   config_suffix == eh.suffix && delim == eh.delim && comment == eh.comment) \
__CPROVER_requires(eh.hist_calls == 0 && sd_n == 0 && IS_CODE(eh.hist_ret)) \
__CPROVER_assigns(*key_files, *size, eh.hist_calls, sd_n, sd_src0, sd_src1, sd_res0, sd_res1)

#define HIST_ENSURES \
__CPROVER_ensures(eh.hist_calls == 1 && __CPROVER_return_value == eh.hist_ret) \
__CPROVER_ensures(eh.hist_ret == ECONF_SUCCESS ? (*key_files == eh.hist_array && *size == eh.hist_size) \
                                               : (*key_files == NULL))

econf_err econf_readDirsHistoryWithCallback(econf_file ***key_files, size_t *size,
                                            const char *dist_conf_dir, const char *etc_conf_dir,
                                            const char *config_name, const char *config_suffix,
                                            const char *delim, const char *comment,
                                            bool (*callback)(const char *filename, const void *data),
                                            const void *callback_data)
HIST_REQUIRES
__CPROVER_requires(callback == eh.cb && callback_data == eh.cb_data)
HIST_ENSURES
;

econf_err econf_readDirsHistory(econf_file ***key_files, size_t *size,
                                const char *dist_conf_dir, const char *etc_conf_dir,
                                const char *config_name, const char *config_suffix,
                                const char *delim, const char *comment)
HIST_REQUIRES
__CPROVER_requires(eh.cb == NULL && eh.cb_data == NULL)
HIST_ENSURES
;
