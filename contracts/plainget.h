/* Contracts for the four plain per-entry / per-object getters of lib/keyfile.c
 * (getStringValueNum, getCommentsNum, getLineNrNum, getPath): T1, any array
 * size, any index, texts of any length (no string is read: abstract strdup
 * with a ghost log, stubs/strdup_log.c).  C10 (frame: only the out-parameters),
 * C17 (what the extended getter hands out is the stored line number, comments
 * and path, as copies). */
#pragma once
#include <stdint.h>
#include "libeconf.h"
#include "keyfile.h"
extern int sd_n;
extern const char *sd_src0, *sd_src1;
extern char *sd_res0, *sd_res1;
#define SD_FRAME sd_n, sd_src0, sd_src1, sd_res0, sd_res1

#ifdef FN_GETSTRING
econf_err getStringValueNum(econf_file key_file, size_t num, char **result)
__CPROVER_requires(result != NULL && sd_n == 0)
__CPROVER_assigns(*result, SD_FRAME)
__CPROVER_ensures(__CPROVER_return_value == ECONF_SUCCESS)
/* an absent value is handed out as NULL, a present one as a private copy; the object keeps its text */
__CPROVER_ensures(key_file.file_entry[num].value == NULL ==> (*result == NULL && sd_n == 0))
__CPROVER_ensures(key_file.file_entry[num].value != NULL ==>
                  (sd_n == 1 && sd_src0 == key_file.file_entry[num].value && *result == sd_res0 &&
                   *result != NULL && *result != key_file.file_entry[num].value))
;
#endif
#ifdef FN_GETCOMMENTS
econf_err getCommentsNum(econf_file key_file, size_t num, char **comment_before_key, char **comment_after_value)
__CPROVER_requires(comment_before_key != NULL && comment_after_value != NULL && comment_before_key != comment_after_value && sd_n == 0)
__CPROVER_assigns(*comment_before_key, *comment_after_value, SD_FRAME)
__CPROVER_ensures(__CPROVER_return_value == ECONF_SUCCESS)
/* each comment on its own: absent -> NULL, present -> a private copy of THAT comment (never the other one) */
__CPROVER_ensures(key_file.file_entry[num].comment_before_key == NULL ==> *comment_before_key == NULL)
__CPROVER_ensures(key_file.file_entry[num].comment_after_value == NULL ==> *comment_after_value == NULL)
__CPROVER_ensures(sd_n == (key_file.file_entry[num].comment_before_key != NULL) + (key_file.file_entry[num].comment_after_value != NULL))
__CPROVER_ensures(key_file.file_entry[num].comment_before_key != NULL ==>
                  (sd_src0 == key_file.file_entry[num].comment_before_key && *comment_before_key == sd_res0))
__CPROVER_ensures((key_file.file_entry[num].comment_before_key != NULL && key_file.file_entry[num].comment_after_value != NULL) ==>
                  (sd_src1 == key_file.file_entry[num].comment_after_value && *comment_after_value == sd_res1))
__CPROVER_ensures((key_file.file_entry[num].comment_before_key == NULL && key_file.file_entry[num].comment_after_value != NULL) ==>
                  (sd_src0 == key_file.file_entry[num].comment_after_value && *comment_after_value == sd_res0))
;
#endif
#ifdef FN_GETLINENR
econf_err getLineNrNum(econf_file key_file, size_t num, uint64_t *line_nr)
__CPROVER_requires(line_nr != NULL)
__CPROVER_assigns(*line_nr)
__CPROVER_ensures(__CPROVER_return_value == ECONF_SUCCESS && *line_nr == key_file.file_entry[num].line_number)
;
#endif
#ifdef FN_GETPATH
econf_err getPath(econf_file key_file, char **path)
__CPROVER_requires(path != NULL && sd_n == 0)
__CPROVER_assigns(*path, SD_FRAME)
__CPROVER_ensures(__CPROVER_return_value == ECONF_SUCCESS)
__CPROVER_ensures(key_file.path == NULL ==> (*path == NULL && sd_n == 0))
__CPROVER_ensures(key_file.path != NULL ==> (sd_n == 1 && sd_src0 == key_file.path && *path == sd_res0 && *path != key_file.path))
;
#endif
