/* econf_readConfig (lib/libeconf.c) under contract: it is
 * econf_readConfigWithCallback with no callback and no data, every other
 * argument unchanged, its result and object handed on  -  C06 C12.
 * econf_readConfigWithCallback is REPLACED by a logging contract (its
 * behaviour is the subject of the bounded jobs wrappers.fn5/6.*). */
#pragma once
#include "libeconf.h"
struct ec_ghost {
  econf_file **key_file; const char *project, *usr_subdir, *name, *suffix, *delim, *comment;
  int calls; econf_err ret; econf_file *result;
};
extern struct ec_ghost ec;
#define IS_CODE(r) ((r) >= ECONF_SUCCESS && (r) <= ECONF_VALUE_CONVERSION_ERROR)

econf_err econf_readConfigWithCallback(econf_file **key_file, const char *project, const char *usr_subdir,
                                       const char *config_name, const char *config_suffix,
                                       const char *delim, const char *comment,
                                       bool (*callback)(const char *filename, const void *data),
                                       const void *callback_data)
__CPROVER_requires(ec.calls == 0 && key_file != NULL && key_file == ec.key_file)
__CPROVER_requires(project == ec.project && usr_subdir == ec.usr_subdir && config_name == ec.name &&
                   config_suffix == ec.suffix && delim == ec.delim && comment == ec.comment)
/* C06: the plain variant has no callback and no data */
__CPROVER_requires(callback == NULL && callback_data == NULL)
__CPROVER_assigns(*key_file, ec.calls)
__CPROVER_ensures(ec.calls == 1 && __CPROVER_return_value == ec.ret && *key_file == ec.result)
;

econf_err econf_readConfig(econf_file **key_file, const char *project, const char *usr_subdir,
                           const char *config_name, const char *config_suffix,
                           const char *delim, const char *comment)
__CPROVER_requires(ec.calls == 0 && key_file != NULL && key_file == ec.key_file)
__CPROVER_requires(project == ec.project && usr_subdir == ec.usr_subdir && config_name == ec.name &&
                   config_suffix == ec.suffix && delim == ec.delim && comment == ec.comment)
__CPROVER_assigns(*key_file, ec.calls)
__CPROVER_ensures(ec.calls == 1 && __CPROVER_return_value == ec.ret && *key_file == ec.result)
;
