/* Contract for the parser read_file() of lib/getfilecontents.c, enforced on
 * SCENARIOS (DESIGN.md 6 C02): concrete context lines, one line under test
 * with symbolic bytes, optional concrete follow-up line.  Bounded (T2). */
#pragma once
#include "libeconf.h"
#include "keyfile.h"
#include "getfilecontents.h"
#include "asprintf_shim.h"
#include "stdio_real.h"

#define IS_CODE(r) ((r) >= ECONF_SUCCESS && (r) <= ECONF_VALUE_CONVERSION_ERROR)

/* representation invariant of a parsed object (DESIGN.md 5.6), for the few
 * entries a scenario can create */
static inline bool rf_in_groups(const econf_file *ef, const char *g)
{
  for (int i = 0; i < ef->group_count; i++)
    if (ef->groups[i] == g)
      return true;
  return false;
}
static inline bool rf_wf(const econf_file *ef)
{
  if (ef->length > ef->alloc_length) return false;
  if ((ef->alloc_length == 0) != (ef->file_entry == NULL)) return false;
  if ((ef->group_count == 0) != (ef->groups == NULL)) return false;
  if (ef->groups && ef->groups[ef->group_count] != NULL) return false;
  for (size_t i = 0; i < ef->length; i++) {
    if (ef->file_entry[i].key == NULL) return false;
    if (ef->file_entry[i].group == NULL || !rf_in_groups(ef, ef->file_entry[i].group)) return false;
    if (ef->file_entry[i].line_number == 0) return false;
  }
  return true;
}

/* The contract of read_file.  dfcc's write-set instrumentation of the
 * 300-line parser runs out of memory (16 GB at N=6), so this contract is NOT
 * attached with --enforce-contract: the wrapper below asserts the
 * precondition, calls the real function and asserts the postcondition.  No
 * frame condition is checked for the parser; results are bounded (T2). */
static inline econf_err
checked_read_file(econf_file *ef, const char *file, const char *delim, const char *comment)
{
  /* requires: as handed over by read_file_with_callback - a fresh empty object */
  __CPROVER_assert(ef != NULL && ef->length == 0 && ef->alloc_length == 0 && ef->file_entry == NULL,
                   "read_file requires: fresh object");
  __CPROVER_assert(ef->groups == NULL && ef->group_count == 0 && ef->path == NULL,
                   "read_file requires: no sections, no path yet");
  __CPROVER_assert(file != NULL && delim != NULL && comment != NULL && *comment != 0,
                   "read_file requires: arguments as passed by read_file_with_callback");
  int opened = fs.fopen_calls;
  econf_err r = read_file(ef, file, delim, comment);
  /* ensures (C04): a documented code, every handle closed, object well-formed */
  __CPROVER_assert(IS_CODE(r), "read_file ensures: a documented return code");
  __CPROVER_assert(fs.open_now == 0 && fs.fopen_calls == opened + 1,
                   "read_file ensures: file opened once and closed");
  __CPROVER_assert(rf_wf(ef), "read_file ensures: object well-formed (DESIGN 5.6)");
  /* ensures (C17): the object records the path and the first delimiter */
  __CPROVER_assert(fs.fopen_fails || (ef->path != NULL && strcmp(ef->path, file) == 0 && ef->delimiter == *delim),
                   "read_file ensures: path and delimiter recorded");
  return r;
}
