"""Jobs on util/econftool.c (C19, C14) and lib/econf_error.c (C13)."""
from .pipeline import Job, REPO

Q, T = ("quick", "thorough"), ("thorough",)


def register(J):
    us = {"pr_key_file@1": 4, "pr_key_file@2": 3, "pr_key_file@3": 3, "econf_cat@1": 4, "econf_freeArray.0": 4,
          "main.0": 4, "main.1": 6}
    names = {1: "show.pr_key_file", 2: "syntax.econf_read", 3: "cat.econf_cat"}
    for part in (1, 2, 3):
        J.append(Job("econftool." + names[part], ["C19"], "harness/tool.c", sources=[], stubs=["stubs/strstr_real.c"],
                     unwind=12, post_unwindset=us, object_bits=10, tier="T2",
                     defines=["-DPART=%d" % part, "-I" + REPO + "/util"], tiers=Q, timeout=900, mem_gb=8,
                     nobody_ok=[".*"], extra_cbmc=["--max-field-sensitivity-array-size", "128"],
                     functions=[["pr_key_file"], ["econf_read", "print_error", "pr_key_file"], ["econf_cat", "pr_key_file"]][part - 1],
                     bounds="ghost configuration: 0-2 sections with 1-2 keys each and 0-2 group-less keys (all counts "
                            "symbolic); the library API is replaced by executable contracts (harness/tool.c); "
                            "util/econftool.c is #included (main renamed)",
                     model="print log of printf formats/arguments",
                     trusted=["library API behaves as its C11/C17 postconditions (stubs in harness/tool.c); getGroups may answer "
                              "an empty list or ECONF_NOGROUP when there is no section"],
                     statement=["C19: show prints every section, every key of every section - group-less keys included - "
                                "with its value, in order, and nothing else",
                                "C19: syntax/show return non-zero exactly when the library reports an error and then print "
                                "the error with the file and line of the error location",
                                "C19: cat prints (and releases) every member of the history once, in processing order"][part - 1]))
    for rlen, rpos, tiers in ((8, 3, Q), (1022, 1020, T), (1024, 1022, T), (1030, 1028, Q), (1030, 0, Q), (1100, 1023, T), (1100, 1024, T)):
        J.append(Job("econftool.replace_str.len%d.pos%d" % (rlen, rpos), ["C14", "C19", "C04"], "harness/tool.c", sources=[],
                     stubs=["stubs/strstr_real.c"], unwind=rlen + 8, object_bits=10, tier="T2",
                     defines=["-DPART=4", "-DRLEN=%d" % rlen, "-DRPOS=%d" % rpos, "-I" + REPO + "/util"], tiers=tiers, timeout=900, mem_gb=8,
                     nobody_ok=[".*"], extra_cbmc=["--max-field-sensitivity-array-size", "2048"],
                     functions=["replace_str"],
                     bounds="--delimiters argument of %d bytes with the escape \\\\t at position %d (concrete text)" % (rlen, rpos),
                     model="M-real",
                     statement="C14/C19: translating escapes in --delimiters never writes outside the static 1 KiB buffer"))
    J.append(Job("econftool.replace_str.chain", ["C19", "C14"], "harness/tool.c", sources=[], stubs=["stubs/strstr_real.c"],
                 unwind=16, object_bits=10, tier="T2", defines=["-DPART=5", "-I" + REPO + "/util"], tiers=Q, timeout=600,
                 mem_gb=8, nobody_ok=[".*"], extra_cbmc=["--max-field-sensitivity-array-size", "2048"],
                 functions=["replace_str"], bounds="the concrete argument '=\\t:\\f' run through the five translations of main()",
                 model="M-real",
                 statement="C19: the escapes in --delimiters are translated one after the other (the static buffer is fed "
                           "back in) without losing the rest of the string"))
    J.append(Job("errstring", ["C13", "C04"], "harness/errstring.c", sources=["lib/econf_error.c"],
                 stubs=["stubs/snprintf_real.c"], contracts=["stubs/asprintf_shim.h"], unwind=50,
                 post_unwindset={"main.1": 1026}, tier="T1", tiers=Q, timeout=600, mem_gb=8, nobody_ok=[".*"],
                 extra_cbmc=["--max-field-sensitivity-array-size", "2048"], functions=["econf_errString"],
                 model="literal table", bounds="",
                 statement="C13: for EVERY int value of the argument: each of the 25 codes maps to its documented message, "
                           "any other value gives a terminated message from the static buffer; no out-of-bounds table "
                           "access (all loops bounded by literal/buffer sizes)."))
