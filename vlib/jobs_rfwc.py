"""Job on the choke point read_file_with_callback (C06, C13, C16, C20)."""
from .pipeline import Job


def register(J):
    J.append(Job("rfwc", ["C06", "C16", "C13", "C20", "C05", "C17"], "harness/rfwc.c",
                 sources=["lib/getfilecontents.c"], stubs=["stubs/fs_rfwc.c"],
                 contracts=["contracts/rfwc.h"], enforce="read_file_with_callback",
                 replace=["read_file", "get_absolute_path", "econf_freeFile"],
                 unwind=8, tier="T1", model="M-packed (strdup of the path in the permission branch)",
                 timeout=600, mem_gb=8,
                 expect=[r"read_file_with_callback\.postcondition\.", r"read_file\.precondition|precondition"],
                 trusted=["lstat returns any POSIX-allowed result (stubs/fs_rfwc.c)",
                          "the callback is an arbitrary function that does not touch library state"],
                 functions=["read_file_with_callback"],
                 statement="C16: each restriction in force refuses with its specific code before callback and "
                           "parser; C06: callback exactly once with the exact path/data before the parser, "
                           "rejection -> ECONF_PARSING_CALLBACK_FAILED and nothing used; the parser's "
                           "precondition (gate passed, callback accepted) holds at its only call; "
                           "C13/C20: parse failure frees the object once and clears the out-pointer. C05: the parser is "
                           "entered with the caller's delimiter set and comment set, \"#\" for an empty comment set. C17: ... and "
                           "with the RESOLVED absolute path (the path an object reports)."))
    for n, fn, repl in ((1, "econf_readFileWithCallback", ["econf_newKeyFile_with_options", "read_file_with_callback", "econf_freeFile"]),
                        (2, "econf_readFile", ["econf_readFileWithCallback"])):
        J.append(Job("entry." + fn, ["C16", "C06", "C13", "C20"], "harness/entry.c", sources=["lib/libeconf.c"],
                     contracts=["contracts/entry.h"], enforce=fn, replace=repl, defines=["-DFN=%d" % n],
                     unwind=8, tier="T1", timeout=600, mem_gb=8, functions=[fn],
                     expect=[fn + r"\.postcondition\.", r"precondition"],
                     trusted=["econf_newKeyFile_with_options(.., \"\") hands out a fresh object or ECONF_NOMEM (assumed "
                              "contract in contracts/entry.h; bounded evidence: jobs options.*)"] if n == 1 else [],
                     statement="C16/C06/C13/C20: the single-file entry point adds nothing to and drops nothing from the "
                               "contract of read_file_with_callback (proved by job rfwc, REPLACED here): same path, "
                               "delimiter set, comment set, callback and data; every restriction's specific code, the "
                               "callback-failed code and the parser's code reach the caller; the parser runs at most once "
                               "and only behind the gate; after a failure the caller's pointer is NULL and the object "
                               "created for the call was released exactly once."))
    for n, fn in ((1, "econf_readDirsWithCallback"), (2, "econf_readDirs")):
        J.append(Job("entry." + fn, ["C12", "C06", "C20", "C01"], "harness/entry_dirs.c", sources=["lib/libeconf.c"],
                     stubs=["stubs/strdup_log.c"], contracts=["contracts/entry_dirs.h"], enforce=fn,
                     replace=["econf_newKeyFile_with_options", "readConfigWithCallback", "econf_freeFile"],
                     defines=["-DFN=%d" % n], unwind=8, tier="T1", timeout=600, mem_gb=8, functions=[fn],
                     expect=[fn + r"\.postcondition\.", r"readConfigWithCallback\.precondition"],
                     model="M-packed abstract strdup with a ghost log (stubs/strdup_log.c)",
                     trusted=["econf_newKeyFile_with_options(.., \"\") hands out a fresh zeroed object or ECONF_NOMEM "
                              "(assumed contract in contracts/entry_dirs.h; bounded evidence: jobs options.*)",
                              "calloc does not fail (--no-malloc-may-fail): the entry points do not check it"],
                     statement="C12/C01: the two-directory entry point builds the layer list (distribution dir or \"\", "
                               "/etc dir or \"\") in that order, no options, and hands name, suffix, delimiters, comment "
                               "set, the process-wide drop-in list and callback/data unchanged to readConfigWithCallback "
                               "(contract proved by job rcwc, REPLACED here); C06/C20: its code is returned; after a "
                               "failure nothing is handed back, the placeholder object and a partial merge result are "
                               "released exactly once."))
    for n, fn in ((1, "econf_readDirsHistoryWithCallback"), (2, "econf_readDirsHistory")):
        J.append(Job("entry." + fn, ["C12", "C06", "C20", "C01"], "harness/entry_hist.c", sources=["lib/libeconf.c"],
                     stubs=["stubs/strdup_log.c"], contracts=["contracts/entry_hist.h"], enforce=fn,
                     replace=["readConfigHistoryWithCallback"],
                     defines=["-DFN=%d" % n], unwind=8, tier="T1", timeout=600, mem_gb=8, functions=[fn, "econf_freeArray"],
                     expect=[fn + r"\.postcondition\.", r"readConfigHistoryWithCallback\.precondition"],
                     extra_cbmc=["--memory-leak-check"],
                     model="M-packed abstract strdup with a ghost log (stubs/strdup_log.c)",
                     trusted=["readConfigHistoryWithCallback records its arguments and hands back the environment's "
                              "answer (assumed contract in contracts/entry_hist.h; its behaviour is the subject of the "
                              "bounded jobs history.* / dropins.*)",
                              "calloc does not fail (--no-malloc-may-fail): the entry points do not check it"],
                     statement="C12/C01: the history entry point passes the layer list (distribution dir or \"\", /etc "
                               "dir or \"\"), name, suffix, delimiters, comment set, no options, the process-wide "
                               "drop-in list and callback/data unchanged to the history reader; C06/C20: returns its "
                               "code, leaves its out-parameters as the reader set them, releases its private layer "
                               "list (no allocation of the call remains: CBMC memory-leak check)."))
    J.append(Job("entry.econf_readConfig", ["C06", "C12"], "harness/entry_cfg.c", sources=["lib/libeconf.c"],
                 contracts=["contracts/entry_cfg.h"], enforce="econf_readConfig", replace=["econf_readConfigWithCallback"],
                 unwind=8, tier="T1", timeout=300, mem_gb=4, functions=["econf_readConfig"],
                 expect=[r"econf_readConfig\.postcondition\.", r"econf_readConfigWithCallback\.precondition"],
                 trusted=["econf_readConfigWithCallback records its arguments and hands back the environment's answer "
                          "(logging contract; its behaviour is the subject of the bounded jobs wrappers.fn5/6.*)"],
                 statement="C06/C12: econf_readConfig is econf_readConfigWithCallback with no callback and no data, "
                           "every other argument unchanged, result and object handed on."))
    J.append(Job("errloc.last_scanned_file", ["C13", "C10"], "harness/errloc.c", sources=["lib/getfilecontents.c"],
                 stubs=["stubs/strdup_log.c"], contracts=["contracts/errloc.h"], enforce="last_scanned_file",
                 defines=["-DPART_LSF=1"], unwind=8, tier="T1", timeout=300, mem_gb=4,
                 expect=[r"last_scanned_file\.postcondition"], model="M-packed abstract strdup with a ghost log",
                 statement="C13: the error-location accessor hands out a copy of the recorded file name and the recorded "
                           "line number; the record is not written (frame)."))
    J.append(Job("errloc.econf_errLocation", ["C13"], "harness/errloc.c", sources=["lib/econf_error.c"],
                 contracts=["contracts/errloc.h"], enforce="econf_errLocation", replace=["last_scanned_file"],
                 defines=["-DPART_ERRLOC=1"], unwind=8, tier="T1", timeout=300, mem_gb=4,
                 expect=[r"last_scanned_file\.precondition"],
                 statement="C13: econf_errLocation is the accessor with the caller's out-parameters."))
    for n, fn in enumerate(["econf_requireOwner", "econf_requireGroup", "econf_requirePermissions",
                            "econf_followSymlinks", "econf_reset_security_settings"], 1):
        J.append(Job("security." + fn, ["C16", "C18"], "harness/security.c", sources=["lib/libeconf.c"],
                     contracts=["contracts/security.h"], enforce=fn, defines=["-DFN=%d" % n],
                     unwind=8, tier="T1", timeout=300, mem_gb=4, expect=[fn + r"\.postcondition\."],
                     statement="C16: %s has exactly its documented effect on the restriction flags and "
                               "writes nothing else." % fn))
    for n, fn in enumerate(["econf_comment_tag", "econf_delimiter_tag", "econf_set_comment_tag", "econf_set_delimiter_tag"], 6):
        J.append(Job("tags." + fn, ["C07", "C10"], "harness/security.c", sources=["lib/libeconf.c"],
                     contracts=["contracts/security.h"], enforce=fn, defines=["-DFN=%d" % n],
                     unwind=8, tier="T1", timeout=300, mem_gb=4, expect=[fn + r"\.postcondition\."],
                     statement="C07/C10: %s reads/writes exactly the object's tag, accepts NULL, touches nothing else." % fn))
    J.append(Job("abspath", ["C17", "C13"], "harness/abspath.c", sources=["lib/helpers.c"], unwind=10, tier="T2",
                 timeout=300, mem_gb=4, nobody_ok=[".*"], functions=["get_absolute_path"],
                 bounds="file name < 6 bytes, resolved path < 8 bytes", model="M-real",
                 trusted=["realpath fails or writes an absolute path into the caller's buffer"],
                 statement="C17: get_absolute_path copies an absolute name, resolves a relative one through realpath, "
                           "returns NULL (and ECONF_NOFILE) when that fails."))
