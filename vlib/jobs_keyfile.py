"""Jobs on lib/keyfile.c: typed per-entry getters and setters (C08, C09, C10)."""
from .pipeline import Job
from .registry import KEYFILE_TRUST

TYPES = [
    # suffix, C type, kind, nondet, sign fn
    ("Int", "int32_t", "KIND_INT", "nondet_int32", None),
    ("Int64", "int64_t", "KIND_INT", "nondet_int64", None),
    ("UInt", "uint32_t", "KIND_INT", "nondet_uint32", None),
    ("UInt64", "uint64_t", "KIND_INT", "nondet_uint64", None),
    ("Float", "float", "KIND_FP", "nondet_float", "__CPROVER_signf"),
    ("Double", "double", "KIND_FP", "nondet_double", "__CPROVER_signd"),
]


def register(J):
    for suf, ct, kind, nd, sign in TYPES:
        g = "get%sValueNum" % suf
        s = "set%sValueNum" % suf
        J.append(Job("numget." + g, ["C09", "C10", "C08", "C04"], "harness/numget.c",
                     sources=["lib/keyfile.c"], stubs=["stubs/numtext.c"],
                     contracts=["contracts/keyfile_num.h"], enforce=g, unwind=8, tier="T1",
                     model="M-tag (numeric text is an opaque tagged buffer)",
                     defines=["-DGETTER=" + g, "-DRT=" + ct, "-D" + kind],
                     replay="numget" if kind == "KIND_INT" else None,
                     trusted=KEYFILE_TRUST, timeout=300, mem_gb=4,
                     expect=[g + r"\.postcondition\.", g + r"\.assigns\.|assigns"],
                     statement="C09: %s returns the literal's mathematical value iff the result type can "
                               "represent it, else an error code; absent value -> error code, no dereference. "
                               "C10: writes only *result (and errno)." % g))
        J.append(Job("numset." + s, ["C08", "C10"], "harness/numset.c",
                     sources=["lib/keyfile.c"], stubs=["stubs/numtext.c"],
                     contracts=["contracts/keyfile_num.h"], enforce=s, unwind=12, tier="T1",
                     model="M-tag", defines=["-DSETTER=" + s, "-DVT=" + ct],
                     trusted=KEYFILE_TRUST, timeout=300, mem_gb=4,
                     expect=[s + r"\.postcondition\."],
                     statement="C08: %s stores text that spells exactly *v read as %s (format type, "
                               "precision >= *_DECIMAL_DIG); only entry[num].value changes; the old text "
                               "is freed once." % (s, ct)))
        defs = ["-DSETTER=" + s, "-DGETTER=" + g, "-DVT=" + ct, "-D" + kind, "-DNONDET=" + nd]
        if sign:
            defs.append("-DSIGNF=" + sign)
        J.append(Job("numrt." + suf, ["C08"], "harness/numrt.c",
                     sources=["lib/keyfile.c"], stubs=["stubs/numtext.c"],
                     contracts=["contracts/keyfile_num.h"], replace=[s, g], unwind=8, tier="T1",
                     model="M-tag", defines=defs, trusted=KEYFILE_TRUST, timeout=300, mem_gb=4,
                     functions=[s, g],
                     statement="C08 lemma: the setter's and the getter's contracts compose to "
                               "get(set(v)) == v for every %s value (NaN as NaN, signed zero kept)." % ct))
    for variant, defs in (("text", ["-DVALCAP=1048576"]), ("absent", ["-DWITH_NULL"])):
        J.append(Job("getbool." + variant, ["C09", "C10", "C04"], "harness/getbool.c",
                     sources=["lib/keyfile.c", "lib/helpers.c"],
                     contracts=["contracts/keyfile_getters.h"], enforce="getBoolValueNum",
                     unwind=9, tier="T1", model="real bytes, string object of symbolic size < 2^20",
                     defines=defs, replay="getbool" if variant == "text" else None,
                     timeout=300, mem_gb=4, expect=[r"getBoolValueNum\.postcondition\."],
                     statement="C09: the boolean getter succeeds exactly on 1/0/yes/no/true/false in any "
                               "letter case and on the empty value (false), fails on every other text, "
                               "does not dereference an absent value. C10: writes only *result."))


def register_wrappers(J):
    """dfcc contracts on the macro-generated public wrappers (contracts/getvalue.h)."""
    nd = {"int32_t": "int32", "int64_t": "int64", "uint32_t": "uint32", "uint64_t": "uint64", "float": "float",
          "double": "double", "bool": "bool"}
    for fct, ct in (("Int", "int32_t"), ("Int64", "int64_t"), ("UInt", "uint32_t"), ("UInt64", "uint64_t"),
                    ("Float", "float"), ("Double", "double"), ("String", "char*"), ("Bool", "bool")):
        base = ["-DFCT=" + fct, "-DCT=" + ct] + (["-DIS_STRING=1"] if fct == "String" else ["-Dnondet_ct=nondet_" + nd[ct]])
        g = "econf_get%sValue" % fct
        J.append(Job("getvalue." + fct, ["C10", "C11", "C08", "C09"], "harness/getvalue.c", sources=["lib/libeconf.c"],
                     stubs=["stubs/strdup_abstract.c"], contracts=["contracts/getvalue.h"], enforce=g,
                     replace=["find_key", "stripbrackets", "get%sValueNum" % fct], unwind=10, tier="T1",
                     defines=base + ["-DPART_GET=1"], timeout=300, mem_gb=4, model="M-packed abstract strdup",
                     expect=[g + r"\.postcondition\."],
                     statement="C10: %s writes only *result (frame); C11: the lookup uses the caller's key and a private "
                               "bracket-stripped copy of the section name, a missing object/key is refused; C08/C09: exactly "
                               "the entry the lookup named is converted by the matching per-entry getter (whose own contract "
                               "is job numget.*/getbool.*) into the caller's result." % g))
        d = "econf_get%sValueDef" % fct
        J.append(Job("getdef." + fct, ["C11", "C10"], "harness/getvalue.c", sources=["lib/get_value_def.c"],
                     stubs=["stubs/strdup_abstract.c"], contracts=["contracts/getvalue.h"], replace=[g], unwind=10,
                     tier="T1", defines=base + ["-DPART_DEF=1"], timeout=300, mem_gb=4, functions=[d],
                     model="M-packed abstract strdup",
                     statement="C11: %s asks the plain getter with the caller's arguments, hands on its code and returns "
                               "the default (bit for bit; a copy for text) exactly when the key is absent." % d))
        svt = {"String": "const char*", "Bool": "const char*"}.get(fct, ct)
        s = "econf_set%sValue" % fct
        J.append(Job("setvalue." + fct, ["C11", "C08"], "harness/getvalue.c", sources=["lib/libeconf.c"],
                     stubs=["stubs/strdup_abstract.c"], contracts=["contracts/getvalue.h"], enforce=s,
                     replace=["setKeyValue", "stripbrackets"], unwind=10, tier="T1",
                     defines=["-DFCT=" + fct, "-DCT=" + ct, "-DSVT=" + svt, "-DPART_SET=1"] +
                             (["-DIS_STRING=1", "-DIS_TEXT=1"] if fct == "String" else
                              ["-DIS_TEXT=1", "-Dnondet_ct=nondet_bool"] if fct == "Bool" else ["-Dnondet_ct=nondet_" + nd[ct]]),
                     timeout=300, mem_gb=4, model="M-packed abstract strdup", expect=[s + r"\.postcondition\."],
                     bounds="key <= 3 bytes (the setter takes strlen(key))",
                     statement="C11: %s refuses a missing object, a missing or an empty key without effect; otherwise it "
                               "stores through setKeyValue with the matching per-entry setter, the caller's key/value and a "
                               "private bracket-stripped copy of the section name; frame: nothing else is written." % s))


def register_t1(J):
    """more functions under dfcc contracts, no input bound"""
    J.append(Job("findkey", ["C11", "C10", "C04"], "harness/findkey.c", sources=["lib/helpers.c"],
                 stubs=["stubs/strdup_abstract.c"], contracts=["contracts/findkey.h"], enforce="find_key",
                 replace=["strcmp"], loop_tags=["findkey"], unwind=8, tier="T1", timeout=300, mem_gb=4,
                 expect=[r"loop_invariant_step", r"find_key\.postcondition"], model="abstract strcmp (any result)",
                 statement="find_key, entry array of ANY length (injected loop contract: invariant, frame, decreases): the "
                           "returned index is in range, a missing/empty key is refused, only *num is written, the loop "
                           "terminates. First-match semantics: api.* jobs."))
    J.append(Job("append", ["C11", "C20", "C04"], "harness/growth.c", sources=["lib/keyfile.c"], stubs=["stubs/numtext.c"],
                 contracts=["contracts/growth.h", "stubs/asprintf_shim.h"], enforce="key_file_append",
                 replace=["initialize", "realloc"], unwind=8, tier="T1", defines=["-DPART_APPEND=1"], timeout=300, mem_gb=4,
                 expect=[r"key_file_append\.postcondition"], model="realloc replaced by its contract (fresh object of the requested size)",
                 statement="C11 growth step for EVERY length/alloc_length: one more live entry, length <= alloc_length, the "
                           "array grows by exactly one slot when it is full and that slot (and only that) is initialised."))
    J.append(Job("newkeyfile", ["C11", "C20", "C04"], "harness/growth.c", sources=["lib/libeconf.c"],
                 contracts=["contracts/growth.h"], enforce="econf_newKeyFile", replace=["initialize"], unwind=10, tier="T1",
                 defines=["-DPART_NEWKF=1"], timeout=300, mem_gb=4, expect=[r"econf_newKeyFile\.postcondition", r"initialize\.precondition"],
                 trusted=["calloc/malloc do not fail (--no-malloc-may-fail); the NOMEM branches are not exercised"],
                 statement="C11: econf_newKeyFile yields the empty configuration: length 0, KEY_FILE_DEFAULT_LENGTH spare "
                           "slots each initialised exactly once in order, the given delimiter/comment character, no "
                           "options, layers, sections, path (the loop has a constant bound and is unwound completely)."))
    J.append(Job("newinifile", ["C11", "C07"], "harness/growth.c", sources=["lib/libeconf.c"],
                 contracts=["contracts/growth.h"], enforce="econf_newIniFile", replace=["econf_newKeyFile"], unwind=10, tier="T1",
                 defines=["-DPART_NEWINI=1"], timeout=300, mem_gb=4, expect=[r"econf_newIniFile\.postcondition"],
                 statement="C11/C07: econf_newIniFile is econf_newKeyFile with delimiter '=' and comment character '#' "
                           "(the constructor REPLACED by its proved contract, job newkeyfile)."))
    J.append(Job("grouplist", ["C11", "C04"], "harness/growth.c", sources=["lib/helpers.c"], contracts=["contracts/growth.h"],
                 enforce="getFromGroupList", replace=["strcmp"], loop_tags=["grouplist"], unwind=8, tier="T1",
                 defines=["-DPART_GROUPLIST=1"], timeout=300, mem_gb=4, expect=[r"loop_invariant_step"],
                 model="abstract strcmp",
                 statement="getFromGroupList for a section list of ANY length (injected loop contract): stays inside the "
                           "list, writes nothing, terminates."))
    J.append(Job("mergetop", ["C03", "C10", "C17"], "harness/mergetop.c", sources=["lib/libeconf.c"],
                 contracts=["contracts/mergetop.h"], enforce="econf_mergeFiles",
                 replace=["insert_nogroup", "merge_existing_groups", "add_new_groups"], unwind=9, tier="T1", timeout=300,
                 mem_gb=4, expect=[r"econf_mergeFiles\.postcondition"], model="real strcmp against the literal _none_",
                 statement="econf_mergeFiles for entry arrays of any length: leading group-less override entries are copied "
                           "first exactly when the base does not start group-less; the three workers get the right objects "
                           "and the counts are handed over; result length = alloc_length = final count; tags from the base; "
                           "no path; frame: only *merged_file is written (C10)."))


def register_t1b(J):
    J.append(Job("setkeyvalue", ["C11", "C07"], "harness/setkey.c", sources=["lib/helpers.c"], contracts=["contracts/setkey.h"],
                 enforce="setKeyValue", replace=["find_key", "new_key", "sk_store"], unwind=8, tier="T1",
                 defines=["-DPART_SETKEYVALUE=1"], timeout=300, mem_gb=4, expect=[r"setKeyValue\.postcondition"],
                 statement="C11 'a set creates or replaces exactly one entry', for any object size: found -> the typed store "
                           "goes into that entry; not found -> exactly one entry is appended and the store goes into the LAST "
                           "entry; any other lookup result -> refused, nothing appended, nothing stored."))
    J.append(Job("newkey", ["C11", "C20"], "harness/newkey.c", sources=["lib/helpers.c"], stubs=["stubs/strdup_log.c"],
                 contracts=["contracts/setkey.h"], enforce="new_key", replace=["key_file_append", "setGroup", "setKey"],
                 unwind=8, tier="T1", defines=["-DPART_NEWKEY=1"], extra_cbmc=["--memory-leak-check"], timeout=300, mem_gb=4,
                 expect=[r"new_key\.postcondition", r"setGroup\.precondition", r"setKey\.precondition"],
                 model="abstract strdup with a ghost log (which string a copy is a copy of)",
                 trusted=["key_file_append as far as new_key observes it: the contract proved by job append (success, one "
                          "more live entry) - allocation failure is not exercised"],
                 statement="C11 'a set creates exactly one entry', for any object size: new_key refuses a missing object or "
                           "key before anything is appended; otherwise it appends exactly one entry and names the LAST entry "
                           "with a private copy of the caller's section name (of the placeholder when the name is missing or "
                           "empty) and then with the caller's key; a failing section setter ends the call with its code. "
                           "C20: the private copy is released on every path (memory-leak check)."))
    J.append(Job("setkeyfn", ["C11", "C20"], "harness/fieldset.c", sources=["lib/keyfile.c"],
                 stubs=["stubs/strdup_log.c", "stubs/numtext.c"], contracts=["contracts/setkey.h", "stubs/asprintf_shim.h"],
                 enforce="setKey", unwind=8, tier="T1", defines=["-DPART_FIELDSET=1", "-DFN_SETKEY=1"],
                 extra_cbmc=["--memory-leak-check"], timeout=300, mem_gb=4, expect=[r"setKey\.postcondition"],
                 model="abstract strdup with a ghost log",
                 statement="setKey for any array size and index: a missing object or name is refused without effect; "
                           "otherwise the entry's key becomes a private copy of the caller's text, the previous key is "
                           "released exactly once (frees clause, memory-leak check: nothing of the call remains but the "
                           "new key), nothing else is written."))
    J.append(Job("setgroupfn", ["C11", "C20"], "harness/fieldset.c", sources=["lib/keyfile.c"],
                 stubs=["stubs/strdup_log.c", "stubs/numtext.c"], contracts=["contracts/setkey.h", "stubs/asprintf_shim.h"],
                 enforce="setGroup", replace=["setGroupList"], unwind=8, tier="T1",
                 defines=["-DPART_FIELDSET=1", "-DFN_SETGROUP=1"], timeout=300, mem_gb=4,
                 expect=[r"setGroup\.postcondition", r"setGroupList\.precondition"],
                 statement="setGroup for any array size and index: a missing object or name is refused without effect; "
                           "otherwise the name is interned through the section list and the entry points at the interned "
                           "text (it never owns or frees a section name); a failing list reports ECONF_NOMEM; nothing else "
                           "is written."))
    J.append(Job("cpyentry", ["C03"], "harness/cpyentry.c", sources=["lib/helpers.c"], stubs=["stubs/strdup_log4.c"],
                 contracts=["contracts/cpyentry.h"], enforce="cpy_file_entry", replace=["setGroupList"], unwind=8, tier="T1",
                 timeout=300, mem_gb=4, expect=[r"cpy_file_entry\.postcondition", r"main\.assertion"],
                 model="abstract strdup with a four-slot ghost log (no string is read: texts of any length)",
                 statement="C03: the entry copy every merge worker uses carries exactly the source's key and value (private "
                           "copies of THOSE texts; an absent value stays absent); every text the copy points to was allocated "
                           "by this call and the four are different objects (releasing a merge result cannot touch an input); "
                           "its section name is interned in the DESTINATION object; frame: nothing of either object is written."))
    J.append(Job("grouplistset", ["C11"], "harness/grouplistset.c", sources=["lib/helpers.c"], stubs=["stubs/strdup_log.c"],
                 contracts=["contracts/grouplistset.h"], enforce="setGroupList", replace=["getFromGroupList", "realloc"],
                 unwind=16, tier="T1", timeout=300, mem_gb=4,
                 expect=[r"setGroupList\.postcondition", r"getFromGroupList\.precondition"],
                 model="abstract strdup with a ghost log; realloc replaced by its contract (fresh object of the requested size)",
                 trusted=["realloc carries the old list contents over (its own guarantee; bounded in api.*)"],
                 statement="C11 (section list, any length): setGroupList asks the list first with the caller's name; a known "
                           "name is handed out as the interned text and nothing changes; a new name grows the list by exactly "
                           "one slot whose text is a private copy of the caller's name, followed by the terminator, and that "
                           "copy is handed out; only group_count/groups are written."))
    J.append(Job("initialize", ["C20", "C11"], "harness/setkey.c", sources=["lib/helpers.c"], stubs=["stubs/strdup_abstract.c"],
                 contracts=["contracts/setkey.h"], enforce="initialize", replace=["setGroupList"], unwind=8, tier="T1",
                 defines=["-DPART_INITIALIZE=1"], timeout=900, mem_gb=6, expect=[r"initialize\.postcondition"],
                 statement="C20: initialize() determines EVERY field of the slot (group interned, key/value placeholders, no "
                           "comments, line number 0, no quotes) and writes nothing but that slot - any array size, any index."))


def register_plainget(J):
    for tag, fn, what in (("GETSTRING", "getStringValueNum", "the value: NULL when absent, else a private copy of exactly that text"),
                          ("GETCOMMENTS", "getCommentsNum", "each comment on its own: NULL when absent, else a private copy of THAT "
                                                            "comment (never the other one)"),
                          ("GETLINENR", "getLineNrNum", "the stored line number"),
                          ("GETPATH", "getPath", "the object's path: NULL when absent, else a private copy")):
        J.append(Job("plainget." + fn, ["C10"], "harness/plainget.c", sources=["lib/keyfile.c"],
                     stubs=["stubs/strdup_log.c", "stubs/numtext.c"], contracts=["contracts/plainget.h", "stubs/asprintf_shim.h"],
                     enforce=fn, unwind=8, tier="T1", defines=["-DFN_" + tag + "=1"], timeout=300, mem_gb=4,
                     expect=[fn + r"\.postcondition", r"main\.assertion"],
                     model="abstract strdup with a ghost log (no string is read: texts of any length)",
                     statement="C10 (and the read half of C17): %s writes its out-parameter(s) and nothing else (dfcc frame), "
                               "always succeeds, and hands out %s - any array size, any index." % (fn, what)))


def register_setbool(J):
    J.append(Job("setbool", ["C08", "C11"], "harness/setbool.c", sources=["lib/keyfile.c", "lib/helpers.c"],
                 stubs=["stubs/numtext.c"], contracts=["contracts/keyfile_getters.h", "stubs/asprintf_shim.h"],
                 enforce="setBoolValueNum", unwind=9, tier="T2", defines=["-DVALCAP=6"], timeout=600, mem_gb=6,
                 expect=[r"setBoolValueNum\.postcondition"], bounds="text < 6 bytes (the setter hashes the lower-cased text)",
                 model="M-real",
                 statement="C08: for every spelling (any letter case) of 1/yes/true the boolean setter stores \"true\", of "
                           "0/no/false it stores \"false\", and succeeds; a refused text leaves the old value; frame: only "
                           "entry[num].value. With getbool.text (T1) this gives the boolean round trip."))
