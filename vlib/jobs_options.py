"""Jobs on the option string tokenizer (C15, C20) and join_same_entries."""
import itertools
from .pipeline import Job

Q, T = ("quick", "thorough"), ("thorough",)
US = {"realloc.0": 34, "econf_freeFile.0": 2, "econf_freeArray.0": 4, "econf_newKeyFile_with_options@1": 5,
      "econf_newKeyFile_with_options@2": 4, "econf_newKeyFile_with_options@3": 4, "arr_is.0": 1}


def mk(ids, tiers):
    i = list(ids) + [0, 0, 0]
    return Job("options." + "_".join(str(x) for x in ids), ["C15", "C20", "C04"], "harness/options.c",
               sources=["lib/libeconf.c"], stubs=["stubs/writer_tok.c", "stubs/realloc_words.c"],
               contracts=["stubs/asprintf_shim.h"], unwind=64, post_unwindset=US, tier="T2",
               defines=["-DREALLOC_WORDS=33", "-DI0=%d" % i[0], "-DI1=%d" % i[1], "-DI2=%d" % i[2]],
               extra_cbmc=["--memory-leak-check", "--max-field-sensitivity-array-size", "128"],
               tiers=tiers, timeout=600, mem_gb=6, nobody_ok=[".*"],
               functions=["econf_newKeyFile_with_options", "econf_freeFile", "econf_freeArray"],
               bounds="option string = catalogue items %s joined by ';' (catalogue in harness/options.c: 8 documented "
                      "items incl. repeats with other arguments, 4 unknown/misspelt ones); concrete per job" % (list(ids),),
               model="M-real, concrete text",
               statement="C15: documented items accepted, each has its effect, an item given twice acts as its last "
                         "occurrence, an unknown/misspelt item -> ECONF_OPTION_NOT_FOUND; C20: the object can be released, "
                         "no allocation remains (CBMC memory-leak check), nothing freed twice; the option string is not "
                         "modified.")


def register(J):
    quick = [(1,), (2,), (3,), (5,), (7,), (9,), (10,), (11,), (12,), (1, 2), (3, 4), (4, 3), (5, 6), (6, 5), (7, 8),
             (1, 9), (9, 1), (3, 1, 4), (7, 8, 9), (5, 6, 2), (2, 3, 5), (8, 7, 8)]
    seen = set()
    for ids in quick:
        seen.add(ids)
        J.append(mk(ids, Q))
    for n in (1, 2):
        for ids in itertools.product(range(1, 13), repeat=n):
            if ids not in seen:
                seen.add(ids)
                J.append(mk(ids, T))

    # join_same_entries in isolation (the parser + join in one formula does not fit in memory)
    qs = ("aab", "aeb", "nab", "bea", "eab", "aba", "ane", "bbb")
    for vals in ["".join(p) for p in itertools.product("neab", repeat=3)]:
        J.append(Job("join." + vals, ["C15", "C04"], "harness/join.c", sources=[], stubs=["stubs/stdio_real.c"],
                     unwind=8, post_unwindset={"join_same_entries@1": 4, "join_same_entries@2": 4}, tier="T2",
                     defines=['-DVALS="%s"' % vals], extra_cbmc=["--max-field-sensitivity-array-size", "128"],
                     tiers=Q if vals in qs else T, timeout=600, mem_gb=6, nobody_ok=[".*"],
                     functions=["join_same_entries"],
                     bounds="3 group-less entries, keys symbolic (k/m), values %r (n absent, e empty, a \"a\", b \" b\"); "
                            "lib/getfilecontents.c is #included so that the static function is called directly" % vals,
                     model="M-real",
                     statement="C15: with JOIN_SAME_ENTRIES the value list of a key (stored text split at newlines, items "
                               "blank-trimmed) is the lines of all its definitions since the last empty one, in file "
                               "order; no entry is lost; absent values are not printed as text."))
