"""Registry: which jobs (functions under contract) decide which property."""
from .pipeline import Job

KEYFILE_TRUST = [
    "glibc strtol/strtoll/strtoul/strtoull/strtof/strtod and printf %d/%u/%ld/%lu/%.*g behave as ISO C / "
    "IEEE 754 say (axioms in stubs/numtext.c, DESIGN.md 4.4)",
]

PROPS = {}
NOT_APPLICABLE = {}


def prop(pid, category, text, note, technique, design_ref, assumptions=()):
    PROPS[pid] = dict(category=category, text=text, note=note, technique=technique,
                      design_ref=design_ref, assumptions=list(assumptions))


_JOBS = None


def jobs():
    global _JOBS
    if _JOBS is None:
        _JOBS = []
        from . import jobs_keyfile
        jobs_keyfile.register(_JOBS)
        jobs_keyfile.register_wrappers(_JOBS)
        jobs_keyfile.register_t1(_JOBS)
        jobs_keyfile.register_t1b(_JOBS)
        jobs_keyfile.register_setbool(_JOBS)
        jobs_keyfile.register_plainget(_JOBS)
        from . import jobs_parser
        jobs_parser.register(_JOBS)
        from . import jobs_merge
        jobs_merge.register(_JOBS)
        from . import jobs_layered
        jobs_layered.register(_JOBS)
        from . import jobs_api
        jobs_api.register(_JOBS)
        from . import jobs_writer
        jobs_writer.register(_JOBS)
        jobs_writer.register_ext(_JOBS)
        from . import jobs_options
        jobs_options.register(_JOBS)
        from . import jobs_tool
        jobs_tool.register(_JOBS)
        from . import jobs_rfwc
        jobs_rfwc.register(_JOBS)
        for j in _JOBS:
            # every function under a dfcc contract carries a frame (assigns clause): C18 (b)
            if j.enforce and "C18" not in j.props:
                j.props.append("C18")
        names = [j.name for j in _JOBS]
        assert len(names) == len(set(names)), "duplicate job names"
    return _JOBS


def static_checks(pid, tier):
    from . import static
    return static.run(pid, tier)


prop("C08", "proof",
     "Every typed setter/getter pair of lib/keyfile.c is under a CBMC contract enforced with goto-instrument "
     "--dfcc for all values of the type (full 32/64-bit domains, every float/double bit pattern) and every "
     "entry-array length: the setter's postcondition says the stored text spells exactly the value read through "
     "the format's own C type with >= *_DECIMAL_DIG digits, the getter's postcondition says such text comes back "
     "as that value, and a lemma harness over the two contracts proves get(set(v)) == v. Proof is relative to "
     "axioms about glibc's printf/strto* (numeric text is an opaque tagged buffer).",
     "Trusted: glibc printf/strto* round-trip facts (stubs/numtext.c); the write/read-back leg is covered by "
     "C07's writer/parser obligations restricted to numeric text, composed on paper; allocation never fails.",
     "CBMC function contracts (dfcc) on set<T>ValueNum/get<T>ValueNum + composition lemma", "6 C08")
prop("C09", "proof",
     "Each typed getter is under a contract taken from the statement: for an integer literal of ANY mathematical "
     "value in (-3*2^64, 3*2^64) the getter succeeds iff the value is in the result type's range and then returns "
     "exactly it; floating getters return exactly the correctly rounded ghost constant or refuse; the boolean "
     "getter is checked on every byte string of length < 2^20 against a spec function written from the six "
     "words; an absent value gives an error code without dereference. All loops are bounded by string literals.",
     "Trusted: strto* axioms of stubs/numtext.c (ISO C clamping/negation rules), CBMC's strcmp/strcasecmp models, "
     "C locale for case folding. Literals with trailing text are left unspecified, as in the statement.",
     "CBMC function contracts (dfcc) on the typed getters, full-domain symbolic literals", "6 C09")
prop("C10", "model_checking",
     "Frame conditions (__CPROVER_assigns) enforced by dfcc (T1, any object size) on the typed per-entry getters, the "
     "eight public econf_get<T>Value wrappers (the section name is edited in a private copy), the tag queries and "
     "econf_mergeFiles' top level: the only memory a query may write is its out-parameter, errno and memory it "
     "allocated itself. For the listing functions, the extended getter, the writer and the merge workers (not under "
     "dfcc) the harness compares every entry pointer, flag and text of the object(s) before and after the call "
     "(bounded jobs api.*, extvalue.*, writer.*, merge.*).",
     "Trusted: the libc models used (they are instrumented by dfcc as well). Bounded parts: <= 3 entries, short "
     "texts; they are reported as bounded and not counted as discharged.",
     "CBMC assigns-clause (frame) checking with dfcc on getters/wrappers/tags/merge top level + bounded before/after "
     "comparison for listings, extended getter, writer, merge", "6 C10")
prop("C06", "model_checking",
     "The single choke point read_file_with_callback is under a CBMC contract (loop-free, every lstat result, "
     "every flag state, callback absent/accepting/rejecting): the callback is called exactly once with the exact "
     "path and data pointer before the parser, a rejection returns ECONF_PARSING_CALLBACK_FAILED without the "
     "parser being entered, and the replaced parser's PRECONDITION (callback accepted this very path) is "
     "discharged at its only call site. A call-graph fact recomputed each run shows the parser and fopen/getline "
     "are reachable only through that function. The layered readers are under contract for forwarding the "
     "caller's callback/data unchanged and for handing back nothing after a failure; so are the single-file and "
     "two-directory entry points (dfcc, jobs entry.*: callback/data forwarded unchanged, NULL/NULL for the plain "
     "variants).",
     "Trusted: the callback does not touch library state; file system behaves as the lstat/scandir stubs allow "
     "(any POSIX result). Real directory contents are not explored.",
     "CBMC function contracts (dfcc) with ghost call log; precondition of the replaced parser; call-graph fact",
     "6 C06")
prop("C16", "proof",
     "read_file_with_callback under contract for every struct stat the lstat stub can return and every "
     "combination of the owner/group/symlink/permission flags: each restriction in force yields its specific "
     "code before the callback and the parser are reached, a conforming file proceeds; the replaced parser "
     "requires 'gate passed' at its only call site. The five setter/reset functions are under contract for their "
     "exact post-state. Call-graph fact: no other path into the parser. That the refusal of ANY consulted file "
     "(main file or drop-in) reaches the caller of every layered entry point as that code, with nothing handed "
     "back, is the bounded part (history.*, dropins.*, wrappers.fn7/8: labelled bounded, not counted as proved). "
     "The single-file entry points econf_readFile / econf_readFileWithCallback are under dfcc contracts on top of "
     "that proved contract (jobs entry.*): every restriction's code reaches the caller, the parser runs only behind "
     "the gate.",
     "Trusted: lstat reports the truth about the file; the kernel's notion of owner/group/symlink.",
     "CBMC function contracts (dfcc), loop-free, full-domain symbolic stat results", "6 C16")
PARSER_NOTE = ("Bounded: the line under test is every byte string up to the stated N (8-11 bytes) in a finite, "
               "listed catalogue of concrete context lines (DESIGN.md 6 C02); longer lines, other contexts and "
               "files as a whole are not covered. The parser is NOT under dfcc (write-set instrumentation runs "
               "out of memory); its contract is asserted by a wrapper, no frame is checked. Trusted: "
               "stubs/stdio_real.c (getline/fopen/asprintf/snprintf/strndup models), CBMC's string library "
               "models, C locale; goto-cc drops __attribute__((cleanup)).")
prop("C02", "model_checking",
     "The real parser read_file() is symbolically executed by CBMC on scenarios: concrete context lines from a "
     "listed catalogue, ONE line under test whose bytes are fully symbolic and constrained only to the "
     "conventional grammar by a reference recogniser written from DESIGN.md 5.1, optional follow-up entry. The "
     "asserted contract: exactly one new entry with the recogniser's key/value/quote flag/section/line/comments "
     "(or the header's / continuation's / blank line's effect) and every other entry unchanged compared with the "
     "file without that line. Seven delimiter classes and three comment sets. Bounded (line <= N bytes).",
     PARSER_NOTE, "CBMC bounded symbolic execution of read_file against a grammar-derived reference recogniser "
     "(contract asserted by wrapper; bounded stand-in, not dfcc)", "6 C02")
prop("C04", "model_checking",
     "read_file() on scenarios whose line under test is EVERY byte string up to N bytes (incl. NUL, 8-bit, "
     "missing newline), with all CBMC pointer/bounds/overflow checks, plus the contract 'documented code, file "
     "closed, object well-formed'; typed getters on absent/arbitrary values are proved unbounded (T1) by their "
     "contracts; merge, writer and bracket helpers by their own jobs.",
     PARSER_NOTE, "CBMC memory-safety checks on the real parser over fully symbolic lines (bounded) + T1 getter "
     "contracts", "6 C04")
prop("C05", "model_checking",
     "Differential contract on read_file(): for every line (<= N bytes) whose first non-blank byte is a comment "
     "character - any bytes after it - inserted after each catalogue context and before a follow-up entry, the "
     "result code, sections, keys and values equal those of the same file without the line.",
     PARSER_NOTE, "CBMC bounded symbolic execution, two runs of the real parser compared (with / without the "
     "comment line)", "6 C05")
prop("C13", "model_checking",
     "Scenarios with one malformed line (no closing bracket, text after bracket, empty name, key + text without "
     "delimiter under a non-blank set) with symbolic bytes after each catalogue context: the specific code, "
     "last-scanned line number = index of that line, file name = the path. read_file_with_callback is proved "
     "(T1, dfcc) to free the object once and clear the out-pointer on any parser failure; econf_errString is "
     "proved against the documented table.",
     PARSER_NOTE, "CBMC bounded scenarios on read_file + T1 contracts on read_file_with_callback / "
     "econf_errString", "6 C13")
prop("C17", "model_checking",
     "The K_ENTRY / K_CONT scenario contracts also pin line_number, comment_before_key, comment_after_value and "
     "path of each entry to the reference recogniser's expectation; econf_getExtValue/getPath/get_absolute_path "
     "have their own contracts.",
     PARSER_NOTE, "CBMC bounded scenarios on read_file + contracts on the extended getter", "6 C17")
prop("C03", "model_checking",
     "econf_mergeFiles (with insert_nogroup, merge_existing_groups, add_new_groups, cpy_file_entry, the group "
     "list helpers - all real code) is symbolically executed by CBMC for every pair of section shapes up to 2+2 "
     "(quick) / 3+2, 2+3 and selected 3+3 (thorough) over {group-less, A, B} incl. re-opened sections and empty "
     "lists, parser-style and econf_newKeyFile-style objects, with the keys of all entries symbolic. The "
     "postcondition is the property statement itself evaluated by a reference merge over (section,key) pairs: "
     "presence, visible value, nothing else, the four order clauses, inputs unchanged - plus all memory-safety "
     "checks on the merge array. One job per shape pair because symbolic shapes do not fit in memory.",
     "Bounded: list lengths <= 3, key universe {x,y}, no (section,key) twice within one list; not under dfcc (the "
     "postcondition is asserted by the harness, the frame is checked by comparing the inputs before/after). "
     "Open known finding: group-less keys that are not leading in an input (setter-built objects only).",
     "CBMC bounded symbolic execution of the real merge against a reference merge, one job per section-shape pair",
     "6 C03")

LAYERED_NOTE = ("Modular chain: each function runs as real code against the executable form of its callees' contracts "
                "(stubs h1/h2/h3, harness/wrappers.c); each such contract is the asserted postcondition of the job that "
                "runs the callee (see vlib/jobs_layered.py). Bounded: <= 3 layers, <= 2 drop-in directories per layer, "
                "<= 2 names per directory, names <= 4 bytes. Trusted: real file system/kernel, alphasort = byte order "
                "(C locale), scandir/lstat models. Open known finding: first drop-in not masked when there is no main file.")
prop("C01", "model_checking",
     "The layered read is decided along its call chain: econf_readConfigWithCallback builds the three default layers "
     "(all NULL/given shapes of project, name, usr_subdir, ROOT_PREFIX); readConfigHistoryWithCallback takes the main "
     "file from the highest layer that has one and traverses every layer's drop-in directories in ascending order "
     "(every combination of file states, 1-3 layers, 0-2 postfix dirs, four suffix spellings); check_conf_dir keeps "
     "exactly the names longer than the suffix that end in it, in scandir/alphasort order, for every directory "
     "content over a small alphabet; merge_econf_files masks by base name and folds left to right; econf_mergeFiles "
     "is C03. Each link is real code checked by CBMC against a reference written from DESIGN.md 5.3.",
     LAYERED_NOTE, "CBMC bounded symbolic execution of each function of the layered-read chain against executable "
     "contracts of its callees; readConfigWithCallback and read_file_with_callback under dfcc contracts", "6 C01")
prop("C12", "model_checking",
     "All six entry points are run as real code against a logging contract of the two internal readers: the "
     "two-directory entry points and their callback/history variants hand over the identical tuple; the merged "
     "reader is proved (dfcc) to be the history reader followed by merge_econf_files on that very array; the fold "
     "itself and the history contents (one member per file read, own path, NULL-terminated) are jobs fold.* / "
     "history.* / dropins.*. The four two-directory entry points are additionally under dfcc contracts (jobs "
     "entry.econf_readDirs*): layer list (distribution dir or \"\", /etc dir or \"\") in that order, no options, "
     "process-wide drop-in list, name/suffix/delimiters/comment set and callback/data forwarded unchanged - the "
     "merged variants against the PROVED contract of readConfigWithCallback, the history variants against a "
     "logging contract of the history reader.",
     LAYERED_NOTE + " Determinism of the internal reader for identical arguments is assumed.",
     "CBMC: dfcc contract on readConfigWithCallback + bounded symbolic execution of the entry points", "6 C12")
prop("C20", "model_checking",
     "Ghost object accounting (live counter maintained by the executable contracts of the constructor/destructor, "
     "CBMC's own double-free/invalid-free checks on the real frees): after every failure at every consulted file "
     "(absent, rejected, wrong owner, parse error; main file or n-th drop-in) the readers have released every "
     "object they created and the out-pointers are NULL / untouched; on success exactly the handed-out objects are "
     "live; the fold releases every input and intermediate once; read_file_with_callback and readConfigWithCallback "
     "under dfcc contracts with frees clauses; the single-file and two-directory entry points under dfcc contracts "
     "(jobs entry.*): after a failure the caller's pointer is NULL, the object created for the call and a partial "
     "merge result are released exactly once, the history variants leak nothing (CBMC memory-leak check).",
     LAYERED_NOTE + " Definedness of memory and allocation failure are not covered (CBMC has no such check; "
     "--no-malloc-may-fail).", "CBMC ownership counters + dfcc frees clauses along the layered-read chain", "6 C20")

prop("C11", "model_checking",
     "Each public operation (set, get, get-with-default, list sections, list keys, typed set) is run as real code "
     "- wrappers, stripbrackets, find_key, setKeyValue, new_key, key_file_append, initialize, the group list - on an "
     "ARBITRARY well-formed object with 0-3 live entries (sections and keys symbolic, duplicates allowed, with and "
     "without spare pre-initialised slots) and on the objects the three constructors produce; the postcondition is "
     "the reference ordered map of the statement plus the representation invariant. Because the start state is "
     "arbitrary the result is inductive: it holds for operation sequences of any length within the entry bound; "
     "growth (realloc path) is included.",
     "Bounded: <= 3 live entries (+1 created), key universe {group-less,A,B} x {x,y}; not under dfcc (frame checked by "
     "before/after comparison of every entry). Trusted: CBMC string models, word-wise realloc model "
     "(stubs/realloc_words.c), numeric text axioms for the typed setter.",
     "CBMC bounded symbolic execution of one API operation from an arbitrary well-formed state against a reference "
     "ordered map (inductive per operation)", "6 C11")

prop("C07", "model_checking",
     "Two machine-checked halves and one paper step. (1) econf_writeFile (real code) is checked against a reference "
     "writer over the sequence of fprintf calls: each entry written exactly once, its key line emitted while the "
     "section in effect in the output equals the entry's section, value quoted iff flagged, comment lines with the "
     "object's comment character, nothing else, object unchanged; entries with symbolic section/key/flag, texts of "
     "fixed length with symbolic bytes. (2) The parser scenarios of C02 (entry / header / comment / continuation "
     "lines for the same delimiter and comment characters) give back exactly key, value, quote flag, comments and "
     "section of such lines. (3) Setter histories produce well-formed entry lists (C11 jobs). The composition "
     "'written token text parses back to the same entry' is a paper lemma over (1) and (2); a direct write+read "
     "harness does not fit (symbolic line lengths).",
     "Bounded: <= 4 entries, texts <= 6 bytes; token text fixed by literal format strings (trusted reading of "
     "printf); composition step not machine-checked. Values outside DESIGN 5.4 (unambiguous textual form) are not "
     "claimed.", "CBMC bounded symbolic execution of the writer against a reference writer over fprintf tokens + C02 "
     "parser scenarios (composition on paper)", "6 C07")
prop("C14", "model_checking",
     "No-truncation is decided where fixed-size buffers could bite: with BUFSIZ scaled to 4 in the verified text, "
     "the writer and the extended getter must hand on values and comments of 5-6 bytes whole (token lengths / "
     "returned string lengths equal the stored lengths); allocation-size arithmetic that precedes copies "
     "(addbrackets, combine_strings, stripbrackets, path composition) is checked by CBMC bounds checks in every job "
     "that runs those functions; PATH_MAX arrays are written through snprintf bounded by sizeof.",
     "Bounded text lengths (scaled BUFSIZ); getline's own growth and 1 MiB inputs are libc / not explored; "
     "util/econftool.c replace_str is C19.", "CBMC bounded symbolic execution with BUFSIZ scaled down (side-car "
     "#define) + bounds checks on allocation-size arithmetic", "6 C14")

prop("C15", "model_checking",
     "PYTHON_STYLE: parser scenarios with the flag set: every indented line (any printable text incl. delimiters, "
     "comment characters, quotes) after an entry appends newline + the text without its indentation to the previous "
     "value and adds no key; entry lines keep trailing comment characters in the value. JOIN_SAME_ENTRIES: the "
     "static join_same_entries() is called directly on three entries (symbolic keys, 64 value shapes) against the "
     "statement's value-list semantics. Option strings: econf_newKeyFile_with_options on every sequence of <= 2 "
     "(quick: selected, incl. triples) catalogue items - documented, repeated with other arguments, unknown, "
     "misspelt - with CBMC's memory-leak check.",
     "Bounded: indented line <= 7 bytes; option catalogue of 12 items (concrete strings: the tokenizer's loops need "
     "constant propagation); join on 3 entries with 4 value kinds; the parser+join composition is not run as one job "
     "(does not fit). Trusted: strsep/asprintf models.",
     "CBMC bounded symbolic execution: parser scenarios with PYTHON_STYLE, join_same_entries in isolation, option "
     "tokenizer over an item catalogue", "6 C15")

prop("C19", "model_checking",
     "util/econftool.c is compiled as it is (main renamed) and its show/syntax/cat functions are run as real code "
     "against executable contracts of the library API over a ghost configuration with symbolic numbers of sections, "
     "keys and group-less keys: show prints every section, key and value - group-less keys included - and nothing "
     "else; syntax/show fail exactly when the library reports an error and then print the error location; cat "
     "prints every history member once in processing order; replace_str stays inside its static buffer.",
     "Bounded: <= 2 sections x <= 2 keys + <= 2 group-less keys, history of <= 3 files. main()'s option parsing "
     "(getopt, environment, path set-up) and the edit/revert commands are not under check; the exit status path "
     "`return ret` is read, not verified. The library side is C01/C11/C12/C17.",
     "CBMC bounded symbolic execution of econftool's functions against executable library contracts", "6 C19")

prop("C18", "other",
     "Contracts have no threads and no interleaving is examined. What is decided is the sequential sufficient "
     "condition for thread confinement: (a) a fact recomputed on every run from the goto symbol table of the linked "
     "library: there is no static-lifetime object (file-scope or function-local static) outside the documented "
     "process-wide ones (last-scanned line/file name, conf_dirs/conf_count, the eight restriction variables, the "
     "read-only message table and the errString buffer); (b) for every function under a dfcc contract the frame "
     "(__CPROVER_assigns) is enforced: typed getters/setters, the choke point read_file_with_callback, "
     "readConfigWithCallback and the five restriction setters write only their out-parameters, their own object, "
     "fresh memory and (choke point: nothing; setters: exactly the documented globals); (c) an access table "
     "recomputed on every run from the goto program of the linked library: each documented process-wide object "
     "is WRITTEN only by its documented writer (error-location record: the parser; drop-in list: "
     "econf_set_conf_dirs; restriction variables: the five setters) and the error-location record is READ only by "
     "its accessor, the restriction variables only by the choke point - so no per-object operation depends on or "
     "modifies process-wide state beyond what the property exempts. Hence calls on disjoint objects share no "
     "library memory beyond what the property exempts.",
     "Schedules are NOT explored (a different technique family would be needed); the parser, merge, writer and "
     "list functions are not under dfcc frames (their jobs compare inputs before/after instead); libc functions "
     "used are assumed MT-safe; callers are assumed not to share objects.",
     "static-lifetime symbol whitelist from the goto symbol table + dfcc frame (assigns) checking; no schedule "
     "exploration", "6 C18")
