"""Registry: which jobs (functions under contract) decide which property."""
from .pipeline import Job

KEYFILE_TRUST = [
    "glibc strtol/strtoll/strtoul/strtoull/strtof/strtod and printf %d/%u/%ld/%lu/%.*g behave as ISO C / "
    "IEEE 754 say (axioms in stubs/numtext.c, DESIGN.md 4.4)",
]

PROPS = {}
NOT_APPLICABLE = {}


def prop(pid, category, text, note, technique, design_ref, assumptions=()):
    PROPS[pid] = dict(category=category, text=text, note=note, technique=technique,
                      design_ref=design_ref, assumptions=list(assumptions))


_JOBS = None


def jobs():
    global _JOBS
    if _JOBS is None:
        _JOBS = []
        from . import jobs_keyfile
        jobs_keyfile.register(_JOBS)
        names = [j.name for j in _JOBS]
        assert len(names) == len(set(names)), "duplicate job names"
    return _JOBS


def static_checks(pid, tier):
    from . import static
    return static.run(pid, tier)


prop("C08", "proof",
     "Every typed setter/getter pair of lib/keyfile.c is under a CBMC contract enforced with goto-instrument "
     "--dfcc for all values of the type (full 32/64-bit domains, every float/double bit pattern) and every "
     "entry-array length: the setter's postcondition says the stored text spells exactly the value read through "
     "the format's own C type with >= *_DECIMAL_DIG digits, the getter's postcondition says such text comes back "
     "as that value, and a lemma harness over the two contracts proves get(set(v)) == v. Proof is relative to "
     "axioms about glibc's printf/strto* (numeric text is an opaque tagged buffer).",
     "Trusted: glibc printf/strto* round-trip facts (stubs/numtext.c); the write/read-back leg is covered by "
     "C07's writer/parser obligations restricted to numeric text, composed on paper; allocation never fails.",
     "CBMC function contracts (dfcc) on set<T>ValueNum/get<T>ValueNum + composition lemma", "6 C08")
prop("C09", "proof",
     "Each typed getter is under a contract taken from the statement: for an integer literal of ANY mathematical "
     "value in (-3*2^64, 3*2^64) the getter succeeds iff the value is in the result type's range and then returns "
     "exactly it; floating getters return exactly the correctly rounded ghost constant or refuse; the boolean "
     "getter is checked on every byte string of length < 2^20 against a spec function written from the six "
     "words; an absent value gives an error code without dereference. All loops are bounded by string literals.",
     "Trusted: strto* axioms of stubs/numtext.c (ISO C clamping/negation rules), CBMC's strcmp/strcasecmp models, "
     "C locale for case folding. Literals with trailing text are left unspecified, as in the statement.",
     "CBMC function contracts (dfcc) on the typed getters, full-domain symbolic literals", "6 C09")
prop("C10", "proof",
     "Frame conditions (__CPROVER_assigns) enforced by dfcc on every query function: the only memory a query may "
     "write is its out-parameter, errno and memory it allocated itself; every write in the call tree, through any "
     "alias, is checked against that frame for entry arrays of any length.",
     "Trusted: the libc models used (they are instrumented by dfcc as well). Functions whose loops need an input "
     "bound are reported as bounded and not counted as discharged.",
     "CBMC assigns-clause (frame) checking with dfcc on all read-only API functions", "6 C10")
