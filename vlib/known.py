"""Known findings: genuine defects of /repo that are recorded rather than
repaired.  /verif/known_findings.json is committed and never written at run
time.  An open entry names the job and a -D flag that makes the job's harness
EXCLUDE exactly the failing input class; the job must then pass, so any other
violation of the same obligation is still reported."""
import copy
import json
import os

from . import pipeline

PATH = os.path.join(pipeline.VERIF, "known_findings.json")


def load():
    try:
        with open(PATH) as f:
            return json.load(f)
    except FileNotFoundError:
        return {"open": [], "fixed": []}


def run_with_known(job, spec_blocks, kf, prop, keep=False):
    import re
    # a finding that covers WHOLE jobs (input classes that are separate jobs):
    # those jobs are not run while the finding is open
    for e in kf.get("open", []):
        if e.get("skip_jobs") and re.search(e["skip_jobs"], job.name) and prop in e["properties"]:
            r = pipeline.JobResult(job)
            r.skipped_known = e["id"]
            r.vacuity_ok = True
            r.known_lines = []
            return r
    entries = [e for e in kf.get("open", []) if e.get("job") == job.name]
    j = job
    if entries:
        j = copy.copy(job)
        j.defines = list(job.defines) + [e["define"] for e in entries]
    r = pipeline.run_job(j, spec_blocks, keep=keep)
    r.job = job
    r.known_lines = ["KNOWN-FINDING: property=%s %s" % (prop, e["what"])
                     for e in entries if prop in e["properties"]]
    return r
