"""Known findings: genuine defects of /repo that are recorded rather than
repaired.  /verif/known_findings.json is committed and never written at run
time.  An open entry names the job and a -D flag that makes the job's harness
EXCLUDE exactly the failing input class; the job must then pass, so any other
violation of the same obligation is still reported."""
import copy
import json
import os

from . import pipeline

PATH = os.path.join(pipeline.VERIF, "known_findings.json")


def load():
    try:
        with open(PATH) as f:
            return json.load(f)
    except FileNotFoundError:
        return {"open": [], "fixed": []}


def run_with_known(job, spec_blocks, kf, prop, keep=False):
    import re
    # a finding that covers WHOLE jobs (input classes that are separate jobs):
    # those jobs are not run while the finding is open
    for e in kf.get("open", []):
        if e.get("skip_jobs") and re.search(e["skip_jobs"], job.name) and prop in e["properties"]:
            r = pipeline.JobResult(job)
            r.skipped_known = e["id"]
            r.vacuity_ok = True
            r.known_lines = []
            return r
    entries = [e for e in kf.get("open", []) if e.get("job") == job.name]
    j = job
    if entries:
        j = copy.copy(job)
        j.defines = list(job.defines) + [e["define"] for e in entries]
    # VERIF_RESULT_CACHE=<dir> (set by tools_runall.sh only, for ONE pass over all properties on
    # one tree; the directory is created empty and removed by that script): a job shared by
    # several properties is run once per pass; only clean passes are remembered
    cdir = os.environ.get("VERIF_RESULT_CACHE")
    cpath = os.path.join(cdir, job.name + ".pkl") if cdir else None
    r = None
    if cpath and os.path.exists(cpath):
        import pickle
        try:
            with open(cpath, "rb") as f:
                r = pickle.load(f)
        except Exception:
            r = None
    if r is None:
        r = pipeline.run_job(j, spec_blocks, keep=keep)
        if cpath and not r.failures and r.undecided is None:
            import pickle
            try:
                with open(cpath + ".tmp", "wb") as f:
                    pickle.dump(r, f)
                os.replace(cpath + ".tmp", cpath)
            except Exception:
                pass
    r.job = job
    r.known_lines = ["KNOWN-FINDING: property=%s %s" % (prop, e["what"])
                     for e in entries if prop in e["properties"]]
    return r
