"""Loop-contract injector.

CBMC accepts loop contract clauses only between a loop header and its body, so
they cannot live in a side-car header.  This module copies a /repo source file
to a scratch directory and inserts the clause block registered for the n-th
`for`/`while` loop (textual order) of a named function right after the closing
parenthesis of that loop header.  `#line` directives keep every original line
on its original line number and under its original path, so CBMC's source
locations refer to /repo.

Round-trip guarantee: `strip()` removes exactly the inserted text; the result
must equal the /repo file byte for byte, otherwise SpecStale is raised.

loops.spec format (one block per loop):

    @ <tag> <repo-relative file> <function> <ordinal> | <expected header text>
    __CPROVER_assigns(...)
    __CPROVER_loop_invariant(...)
    __CPROVER_decreases(...)

`tag` lets different jobs attach different clauses to the same loop.
The expected header text (whitespace-normalised) must match the loop header
found in the source, otherwise the spec is stale (exit 2, never a violation).
"""
import os
import re

BEGIN = "/*@VERIF-LOOP-BEGIN@*/"
END = "/*@VERIF-LOOP-END@*/"


class SpecStale(Exception):
    pass


def blank_comments_and_strings(src):
    """Return text of the same length with comments, string and char literals
    replaced by blanks (newlines kept)."""
    out = list(src)
    i, n = 0, len(src)
    while i < n:
        c = src[i]
        if src.startswith("/*", i):
            j = src.find("*/", i + 2)
            j = n if j < 0 else j + 2
            for k in range(i, j):
                if out[k] != "\n":
                    out[k] = " "
            i = j
        elif src.startswith("//", i):
            j = src.find("\n", i)
            j = n if j < 0 else j
            for k in range(i, j):
                out[k] = " "
            i = j
        elif c == '"' or c == "'":
            q = c
            j = i + 1
            while j < n and src[j] != q:
                if src[j] == "\\":
                    j += 1
                j += 1
            for k in range(i + 1, min(j, n)):
                if out[k] != "\n":
                    out[k] = " "
            i = j + 1
        else:
            i += 1
    return "".join(out)


def match_paren(txt, i, open_c="(", close_c=")"):
    assert txt[i] == open_c
    depth = 0
    while i < len(txt):
        if txt[i] == open_c:
            depth += 1
        elif txt[i] == close_c:
            depth -= 1
            if depth == 0:
                return i
        i += 1
    raise SpecStale("unbalanced %s" % open_c)


def find_function_body(clean, name):
    """Return (start, end) offsets of the body braces of the definition of
    `name` (at brace depth 0)."""
    depth = 0
    i = 0
    n = len(clean)
    pat = re.compile(r"\b%s\s*\(" % re.escape(name))
    # precompute brace depth at each position lazily
    depths = []
    d = 0
    for ch in clean:
        depths.append(d)
        if ch == "{":
            d += 1
        elif ch == "}":
            d -= 1
    for m in pat.finditer(clean):
        if depths[m.start()] != 0:
            continue
        p = clean.index("(", m.start())
        q = match_paren(clean, p)
        j = q + 1
        while j < n and clean[j] in " \t\r\n":
            j += 1
        if j < n and clean[j] == "{":
            return j, match_paren(clean, j, "{", "}")
    raise SpecStale("function %s: definition not found" % name)


def find_loops(clean, body_start, body_end):
    """Offsets (header_start, header_close_paren) of for/while loops in
    textual order inside a function body."""
    loops = []
    for m in re.finditer(r"\b(for|while)\b", clean[body_start:body_end]):
        s = body_start + m.start()
        j = body_start + m.end()
        while clean[j] in " \t\r\n":
            j += 1
        if clean[j] != "(":
            continue
        q = match_paren(clean, j)
        # a `while (...) ;` that closes a do-loop is not a loop header
        k = q + 1
        while clean[k] in " \t\r\n":
            k += 1
        if m.group(1) == "while" and clean[k] == ";":
            # could also be an empty-body while loop; libeconf has
            # `while(isspace(*--back));` -> treat as loop with empty body
            prev = clean[body_start:s].rstrip()
            if prev.endswith("}") and re.search(r"\bdo\b", clean[body_start:s]):
                continue
        loops.append((s, q))
    return loops


def norm(s):
    return re.sub(r"\s+", "", s)


def parse_spec(path):
    blocks = []
    cur = None
    with open(path) as f:
        for ln in f:
            if ln.startswith("#") or (cur is None and not ln.strip()):
                continue
            if ln.startswith("@"):
                head, _, expect = ln[1:].partition("|")
                tag, file, func, ordinal = head.split()
                cur = dict(tag=tag, file=file, func=func, ordinal=int(ordinal),
                           expect=expect.strip(), clauses=[])
                blocks.append(cur)
            elif cur is not None:
                if ln.strip():
                    cur["clauses"].append(ln.rstrip("\n"))
    return blocks


def inject(repo_root, relfile, blocks, tags, out_path):
    """Write an instrumented copy of repo_root/relfile to out_path using the
    blocks whose tag is in `tags` (later tags in the list win for the same
    loop).  Returns list of (func, ordinal, tag) injected."""
    src_path = os.path.join(repo_root, relfile)
    with open(src_path, "rb") as f:
        raw = f.read()
    src = raw.decode("latin-1")
    clean = blank_comments_and_strings(src)
    chosen = {}
    for b in blocks:
        if b["file"] == relfile and b["tag"] in tags:
            key = (b["func"], b["ordinal"])
            if key not in chosen or tags.index(b["tag"]) >= tags.index(chosen[key]["tag"]):
                chosen[key] = b
    inserts = []  # (offset, text)
    done = []
    for (func, ordinal), b in chosen.items():
        bs, be = find_function_body(clean, func)
        loops = find_loops(clean, bs, be)
        if ordinal < 1 or ordinal > len(loops):
            raise SpecStale("%s:%s has %d loops, spec wants loop %d"
                            % (relfile, func, len(loops), ordinal))
        s, q = loops[ordinal - 1]
        header = src[s:q + 1]
        if b["expect"] and norm(header) != norm(b["expect"]):
            raise SpecStale("%s:%s loop %d header is `%s`, spec expects `%s`"
                            % (relfile, func, ordinal, " ".join(header.split()), b["expect"]))
        line_of_rest = src.count("\n", 0, q + 1) + 1
        text = ("\n" + BEGIN + "\n" + "\n".join(b["clauses"]) + "\n"
                + '#line %d "%s"\n' % (line_of_rest, src_path) + END)
        inserts.append((q + 1, text))
        done.append((func, ordinal, b["tag"]))
    inserts.sort()
    out = []
    last = 0
    for off, text in inserts:
        out.append(src[last:off])
        out.append(text)
        last = off
    out.append(src[last:])
    body = "".join(out)
    prologue = '#line 1 "%s"\n' % src_path
    final = prologue + body
    # round trip: removing exactly what was inserted must give the original
    stripped = strip(final, src_path)
    if stripped.encode("latin-1") != raw:
        raise SpecStale("%s: injection round-trip failed" % relfile)
    with open(out_path, "wb") as f:
        f.write(final.encode("latin-1"))
    return done


def strip(text, src_path):
    prologue = '#line 1 "%s"\n' % src_path
    assert text.startswith(prologue)
    text = text[len(prologue):]
    return re.sub(r"\n" + re.escape(BEGIN) + r".*?" + re.escape(END), "", text, flags=re.S)
