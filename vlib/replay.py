"""Native replay of CBMC counterexamples against the real library.

Each driver rebuilds /repo/lib/*.c with gcc + ASan/UBSan in a scratch
directory, feeds it the inputs of the trace (variables named in_*), and
reports whether the real code misbehaves in the way the failed obligation
says.  If no driver applies or the native run is clean the VIOLATION line
ends with no-failing-input-found."""
import json
import os
import re
import shutil
import subprocess
import tempfile

from . import pipeline

LIBSRC = ["libeconf.c", "libeconf_ext.c", "getfilecontents.c", "mergefiles.c",
          "helpers.c", "keyfile.c", "econf_error.c", "get_value_def.c", "readconfig.c"]


def build_native(driver_c, work):
    exe = os.path.join(work, "replay")
    cmd = ["gcc", "-g", "-O0", "-fsanitize=address,undefined", "-fno-omit-frame-pointer",
           "-D_GNU_SOURCE", "-I" + os.path.join(pipeline.REPO, "include"),
           "-I" + os.path.join(pipeline.REPO, "lib"), os.path.join(pipeline.VERIF, driver_c)]
    cmd += [os.path.join(pipeline.REPO, "lib", s) for s in LIBSRC] + ["-o", exe]
    p = subprocess.run(cmd, stdout=subprocess.PIPE, stderr=subprocess.STDOUT)
    if p.returncode != 0:
        return None, p.stdout.decode("utf-8", "replace")
    return exe, ""


def intval(v):
    if v is None:
        return None
    s = str(v).strip()
    m = re.match(r"^'(.*)'$", s)
    if m:
        c = m.group(1)
        if c.startswith("\\"):
            esc = {"\\n": 10, "\\t": 9, "\\r": 13, "\\0": 0, "\\\\": 92, "\\'": 39, "\\f": 12, "\\v": 11, "\\a": 7, "\\b": 8}
            if c in esc:
                return esc[c]
            try:
                return int(c[1:], 8)
            except ValueError:
                return ord(c[-1])
        return ord(c[0]) if c else 0
    s = re.sub(r"[uUlL]+$", "", s)
    if s in ("TRUE", "true"):
        return 1
    if s in ("FALSE", "false"):
        return 0
    try:
        return int(s, 0)
    except ValueError:
        try:
            return int(float(s))
        except ValueError:
            return None


def bytes_of(inputs, name):
    """Collect in_<name>[i] assignments into a bytes object (up to first NUL)."""
    vals = {}
    for k, v in inputs.items():
        m = re.match(r"^%s\[(\d+)l?\]$" % re.escape(name), k)
        if m:
            iv = intval(v)
            vals[int(m.group(1))] = (iv if iv is not None else 0) & 0xFF
    out = bytearray()
    i = 0
    while i in vals and vals[i] != 0:
        out.append(vals[i])
        i += 1
    return bytes(out)


def native(job, trace):
    if not job.replay:
        return False, "no native replay driver is registered for this job (abstract strings / ghost state)"
    if not trace or not trace.get("inputs"):
        return False, "the verifier gave no concrete inputs for this obligation"
    fn = DRIVERS.get(job.replay)
    if fn is None:
        return False, "unknown replay driver %s" % job.replay
    work = tempfile.mkdtemp(prefix="verif.replay.", dir=os.environ.get("VERIF_SCRATCH", "/var/tmp"))
    try:
        return fn(job, trace["inputs"], work)
    except Exception as e:
        return False, "replay driver error: %r" % e
    finally:
        shutil.rmtree(work, ignore_errors=True)


def run_exe(exe, args, cwd, stdin=None):
    env = dict(os.environ, ASAN_OPTIONS="detect_leaks=1:abort_on_error=0", UBSAN_OPTIONS="halt_on_error=1:print_stacktrace=1")
    p = subprocess.run([exe] + args, cwd=cwd, stdout=subprocess.PIPE, stderr=subprocess.STDOUT,
                       timeout=60, env=env, input=stdin)
    return p.returncode, p.stdout.decode("utf-8", "replace")


# --- drivers -----------------------------------------------------------------

def drv_numget(job, inputs, work):
    """C09 integer getters: build the decimal literal of the trace and compare
    the real getter's answer with the literal's mathematical value."""
    typ = [d for d in job.defines if d.startswith("-DGETTER=")][0].split("=")[1]
    exe, err = build_native("replay/numget.c", work)
    if not exe:
        return False, "native build failed: " + err[-800:]
    if intval(inputs.get("in_absent")):
        rc, out = run_exe(exe, [typ, "--absent"], work)
        bad = rc != 0 and "RESULT" not in out or "code=0" in out
        return bad, out[-3000:]
    hi = intval(inputs.get("in_lit_mag_hi")) or 0
    lo = intval(inputs.get("in_lit_mag_lo")) or 0
    mag = ((hi & (2**64 - 1)) << 64) | (lo & (2**64 - 1))
    val = -mag if intval(inputs.get("in_lit_neg")) else mag
    rng = {"getIntValueNum": (-2**31, 2**31 - 1), "getInt64ValueNum": (-2**63, 2**63 - 1),
           "getUIntValueNum": (0, 2**32 - 1), "getUInt64ValueNum": (0, 2**64 - 1)}[typ]
    report = []
    confirmed = False
    for lit in (str(val), ("-" if val < 0 else "") + hex(abs(val)), ("-" if val < 0 else "") + "0" + oct(abs(val))[2:]):
        rc, out = run_exe(exe, [typ, lit], work)
        m = re.search(r"RESULT code=(\d+) value=(-?\d+)", out)
        report.append("%s -> %s" % (lit, out.strip()[-300:]))
        if not m:
            confirmed = True
            continue
        code, got = int(m.group(1)), int(m.group(2))
        if rng[0] <= val <= rng[1]:
            if code != 0 or got != val:
                confirmed = True
        elif code == 0:
            confirmed = True
    return confirmed, "\n".join(report)


def drv_getbool(job, inputs, work):
    exe, err = build_native("replay/getbool.c", work)
    if not exe:
        return False, "native build failed: " + err[-800:]
    text = bytes_of(inputs, "in_value_bytes")
    p = os.path.join(work, "value.bin")
    with open(p, "wb") as f:
        f.write(text)
    rc, out = run_exe(exe, [p], work)
    low = text.lower()
    expect_ok = low in (b"1", b"0", b"yes", b"no", b"true", b"false", b"")
    m = re.search(r"RESULT code=(\d+) value=(\d+) unchanged=(\d+)", out)
    if not m:
        return True, "value=%r\n%s" % (text, out[-2000:])
    code, got, unchanged = int(m.group(1)), int(m.group(2)), int(m.group(3))
    bad = (code == 0) != expect_ok or not unchanged
    if code == 0 and expect_ok and got != (1 if low in (b"1", b"yes", b"true") else 0):
        bad = True
    return bad, "value=%r expected_success=%s\n%s" % (text, expect_ok, out[-1500:])


def _define(job, name, default=None):
    for d in job.defines:
        if d.startswith("-D" + name + "="):
            v = d.split("=", 1)[1]
            if v.startswith('"') and v.endswith('"'):
                v = v[1:-1].encode("latin-1").decode("unicode_escape")
            return v
    return default


def drv_parser(job, inputs, work):
    """Parser scenarios: rebuild the file (context + line under test +
    follow-up) and run the real parser under ASan/UBSan."""
    exe, err = build_native("replay/parser.c", work)
    if not exe:
        return False, "native build failed: " + err[-800:]
    line = bytearray()
    vals = {}
    for k, v in inputs.items():
        m = re.match(r"^in_line_bytes\[(\d+)l?\]$", k)
        if m:
            iv = intval(v)
            vals[int(m.group(1))] = (iv if iv is not None else 0) & 0xFF
    n = int(_define(job, "N", "8"))
    for i in range(n):
        line.append(vals.get(i, 0))
    ctx = b"".join(_define(job, "CTX%d" % i, "").encode("latin-1") for i in range(int(_define(job, "NCTX", "0"))))
    follow = (_define(job, "FOLLOW", "") or "").encode("latin-1")
    delim, comment = _define(job, "DELIM", "="), _define(job, "COMMENT", "#")
    py, join = _define(job, "PYTHON", "0"), _define(job, "JOIN", "0")
    kind = _define(job, "KIND")

    def run_file(content, tag):
        pth = os.path.join(work, tag)
        with open(pth, "wb") as f:
            f.write(content)
        return run_exe(exe, [pth, delim, comment, py, join], work)

    # the parser sees the line up to the first NUL; keep the raw bytes (a NUL in a file is legal input)
    text = bytes(line)
    if b"\0" in text:
        cut = text.index(b"\0")
        shown = text[:cut]
    else:
        shown = text
    rc_a, out_a = run_file(ctx + shown + follow, "with_line")
    report = "file with the line under test %r:\n%s" % (shown, out_a[-2500:])
    if rc_a != 0 or "ERROR: AddressSanitizer" in out_a or "runtime error" in out_a:
        return True, report
    if kind in ("K_COMMENT", "K_BLANK"):
        rc_b, out_b = run_file(ctx + follow, "without_line")
        ents = lambda o: [l.split("|")[1:4] for l in o.splitlines() if l.startswith("ENTRY|")]
        code = lambda o: o.split()[1] if o.startswith("RC") else "?"
        differs = ents(out_a) != ents(out_b) or code(out_a) != code(out_b)
        return differs, report + "\nsame file without that line:\n" + out_b[-1500:]
    return False, report + "\n(no native oracle for this scenario kind: the dump is attached)"


def drv_merge(job, inputs, work):
    """C03: rebuild both lists natively (files for parser-style lists, setters
    otherwise), merge with the real library under ASan, compare with the
    reference merge."""
    exe, err = build_native("replay/merge.c", work)
    if not exe:
        return False, "native build failed: " + err[-800:]
    D = {}
    for d in job.harness_defines:
        k, _, v = d[2:].partition("=")
        D[k] = v.strip('"')
    bg, og = D.get("BG", ""), D.get("OG", "")
    bk = "".join("xy"[(intval(inputs.get("in_bk[%dl]" % i)) or 0) & 1] for i in range(len(bg)))
    ok = "".join("xy"[(intval(inputs.get("in_ok[%dl]" % i)) or 0) & 1] for i in range(len(og)))
    rc, out = run_exe(exe, [bg or "-", og or "-", bk or "-", ok or "-", D.get("B_KIND", "0"), D.get("O_KIND", "0"), work], work)
    head = "base sections=%r keys=%r; override sections=%r keys=%r\n" % (bg, bk, og, ok)
    if rc != 0 or "AddressSanitizer" in out or "runtime error" in out:
        return True, head + out[-3000:]
    gname = {"0": "_none_", "1": "AB", "2": "A"}
    kname = {"x": "x", "y": "xy"}
    B = [(gname[g], kname[k], "b%d" % i) for i, (g, k) in enumerate(zip(bg, bk))]
    O = [(gname[g], kname[k], "o%d" % i) for i, (g, k) in enumerate(zip(og, ok))]
    M = [tuple(l.split("|")[1:4]) for l in out.splitlines() if l.startswith("M|")]
    want = {}
    for g, k, v in B:
        want.setdefault((g, k), v)
    seen = set()
    for g, k, v in O:
        if (g, k) not in seen:
            want[(g, k)] = v
            seen.add((g, k))
    got = {}
    for g, k, v in M:
        got.setdefault((g, k), v)
    problems = []
    if got != want:
        problems.append("visible values differ: want %r got %r" % (want, got))
    if len(M) != len(want):
        problems.append("%d entries for %d (section,key) pairs" % (len(M), len(want)))
    posB = [[(g, k) for g, k, v in M].index((g, k)) for g, k, v in B if (g, k) in got]
    if posB != sorted(posB):
        problems.append("base keys reordered")
    Bn = [tuple(l.split("|")[1:4]) for l in out.splitlines() if l.startswith("B|")]
    On = [tuple(l.split("|")[1:4]) for l in out.splitlines() if l.startswith("O|")]
    if Bn != B or On != O:
        problems.append("an input changed")
    return bool(problems), head + "; ".join(problems) + "\n" + out[-2000:]


DRIVERS = {"numget": drv_numget, "getbool": drv_getbool, "parser": drv_parser, "merge": drv_merge}


def replay_file(path):
    """./check --replay <file>: print the record and re-run the native driver."""
    with open(path) as f:
        rec = json.load(f)
    print(json.dumps({k: rec[k] for k in rec if k != "trace"}, indent=1)[:6000])
    from . import registry
    job = next((j for j in registry.jobs() if j.name == rec.get("job")), None)
    if job is None or not rec.get("trace"):
        print("no native replay possible for this record")
        return 0
    ok, out = native(job, rec["trace"])
    print("native replay confirmed=%s\n%s" % (ok, out))
    return 1 if ok else 0
