"""Jobs on econf_mergeFiles (C03, C04, C10): one job per pair of section
shapes, keys symbolic (harness/merge.c)."""
import itertools
from .pipeline import Job


def shapes(n):
    return ["".join(p) for k in range(n + 1) for p in itertools.product("012", repeat=k)]


def canonical(bg, og):
    """identify pairs that differ only by swapping the names A and B"""
    s = bg + "|" + og
    first = next((c for c in s if c in "12"), None)
    return first != "2"


def leading_groupless(shape):
    return "0" not in shape.lstrip("0")


def mk(bg, og, bk, ok, tiers, extra=0):
    name = "merge.b%s.o%s%s%s" % (bg or "-", og or "-", ".bnew" if bk else "", ".onew" if ok else "")
    if extra:
        name += ".bhdr%d" % extra
    if not (leading_groupless(bg) and leading_groupless(og)):
        name += ".glmid"
    glmid = name.endswith(".glmid")
    return Job(name, ["C03"] if glmid else ["C03", "C04", "C10"], "harness/merge.c",
               sources=["lib/libeconf.c", "lib/mergefiles.c", "lib/helpers.c"],
               harness_defines=['-DBG="%s"' % bg, '-DOG="%s"' % og, "-DB_KIND=%d" % bk, "-DO_KIND=%d" % ok, "-DB_EXTRA_GROUP=%d" % extra],
               unwind=10, tier="T2", timeout=900, mem_gb=6, tiers=tiers, nobody_ok=[".*"], replay="merge",
               bounds="base sections %r, override sections %r (0 group-less, 1 AB, 2 A), keys in {x,xy} symbolic, "
                      "no (section,key) twice in one list; %s base, %s override"
                      % (bg, og, "econf_newKeyFile-style" if bk else "parser-style", "econf_newKeyFile-style" if ok else "parser-style"),
               model="M-real (CBMC strcmp/strdup models on literal-length strings)",
               functions=["econf_mergeFiles", "insert_nogroup", "merge_existing_groups", "add_new_groups",
                          "cpy_file_entry", "setGroupList", "getFromGroupList"],
               statement="C03: every (section,key) of either list has exactly one entry whose value is the "
                         "override's if it defines the key else the base's; nothing else; base order kept; "
                         "override-only keys after the base keys of their section; override-only sections last; "
                         "group-less first; both inputs unchanged (pointers and texts). C04: no out-of-bounds "
                         "write into the merge array, no invalid free.")


def register(J):
    Q, T = ("quick", "thorough"), ("thorough",)
    seen = set()
    for nb, no, tiers in ((2, 2, Q), (3, 2, T), (2, 3, T)):
        for bg in shapes(nb):
            for og in shapes(no):
                if (bg, og) in seen or not canonical(bg, og):
                    continue
                # two key names: a list cannot hold three entries of one section
                if any(x.count(c) > 2 for x in (bg, og) for c in "012"):
                    continue
                seen.add((bg, og))
                J.append(mk(bg, og, 0, 0, tiers))
    # objects from econf_newKeyFile (8 pre-initialised slots) on either side
    for bg, og, bk, ok in (("", "", 1, 1), ("", "01", 1, 0), ("", "0", 1, 0), ("1", "", 0, 1), ("01", "01", 1, 1),
                           ("", "12", 1, 0), ("0", "", 1, 1), ("", "", 0, 0), ("", "", 1, 0)):
        j = mk(bg, og, bk, ok, Q)
        if j.name not in {x.name for x in J}:
            J.append(j)
    # re-opened base sections and a base whose section list has a header without keys: part of the quick set
    for bg, og in (("121", "11"), ("121", "1"), ("212", "2"), ("011", "01"),
                   # ... and re-opened OVERRIDE sections
                   ("1", "121"), ("12", "121"), ("11", "121")):
        for j in J:
            if j.name == "merge.b%s.o%s" % (bg, og):
                j.tiers = Q
    for bg, og, extra in (("1", "2", 2), ("1", "22", 2), ("01", "2", 2), ("2", "1", 1), ("", "1", 1)):
        J.append(mk(bg, og, 0, 0, Q, extra=extra))
    # a few 3+3 pairs with re-opened sections on both sides
    for bg, og in (("121", "121"), ("011", "012"), ("121", "212"), ("012", "021"), ("101", "110")):
        if (bg, og) not in seen:
            seen.add((bg, og))
            J.append(mk(bg, og, 0, 0, T))
