"""Supporting static facts recomputed from the goto binaries on every run
(symbol table whitelist, call-graph facts).  Filled in per property."""

CHECKS = {}


def run(pid, tier):
    out = []
    for fn in CHECKS.get(pid, []):
        out.extend(fn(tier))
    return out
