"""Supporting static facts, recomputed on every run from goto binaries built
from /repo's current sources: the call graph (who can reach the parser and
the file system) and the table of static-lifetime objects of the library.
They are mechanical facts about the linked program, not contracts; they
complement the frame conditions."""
import glob
import json
import os
import re
import shutil
import subprocess
import tempfile

from . import pipeline

_cache = {}


def _build():
    if "dir" in _cache:
        return _cache
    try:
        return _build2()
    finally:
        shutil.rmtree(_cache.get("dir", "/nonexistent"), ignore_errors=True)


def _build2():
    work = tempfile.mkdtemp(prefix="verif.static.", dir=os.environ.get("VERIF_SCRATCH", "/var/tmp"))
    _cache["dir"] = work
    gbs = []
    for src in sorted(glob.glob(os.path.join(pipeline.REPO, "lib", "*.c"))):
        gb = os.path.join(work, os.path.basename(src) + ".gb")
        p = subprocess.run(["goto-cc", "-c", "-D__NO_CTYPE", "-D_GNU_SOURCE",
                            "-I" + os.path.join(pipeline.REPO, "include"),
                            "-I" + os.path.join(pipeline.REPO, "lib"), src, "-o", gb],
                           stdout=subprocess.PIPE, stderr=subprocess.STDOUT)
        if p.returncode != 0:
            _cache["error"] = "goto-cc failed on %s: %s" % (src, p.stdout.decode()[-500:])
            return _cache
        gbs.append(gb)
    lib = os.path.join(work, "lib.gb")
    p = subprocess.run(["goto-cc", "--no-library", "-shared"] + gbs + ["-o", lib],
                       stdout=subprocess.PIPE, stderr=subprocess.STDOUT)
    if p.returncode != 0:
        _cache["error"] = "link failed: " + p.stdout.decode()[-500:]
        return _cache
    out = subprocess.run(["goto-instrument", "--call-graph", lib], stdout=subprocess.PIPE,
                         stderr=subprocess.DEVNULL).stdout.decode()
    edges = set()
    for l in out.splitlines():
        m = re.match(r"^(\S+) -> (\S+)$", l.strip())
        if m:
            edges.add((m.group(1), m.group(2)))
    _cache["edges"] = edges
    out = subprocess.run(["goto-instrument", "--show-symbol-table", "--json-ui", lib],
                         stdout=subprocess.PIPE, stderr=subprocess.DEVNULL).stdout.decode()
    statics = set()
    try:
        for item in json.loads(out):
            if isinstance(item, dict) and "symbolTable" in item:
                for name, s in item["symbolTable"].items():
                    if s.get("isStaticLifetime") and not s.get("isType") and not name.startswith("__CPROVER") \
                            and not s.get("isExtern") and "$" not in name.split("::")[-1]:
                        statics.add(name)
    except Exception as e:
        _cache["error"] = "symbol table: %r" % e
    _cache["statics"] = statics
    # functions whose address is taken (could be called through a pointer)
    out = subprocess.run(["goto-instrument", "--show-goto-functions", lib],
                         stdout=subprocess.PIPE, stderr=subprocess.DEVNULL).stdout.decode()
    _cache["addr_taken"] = set(re.findall(r"address_of\((\w+)\)", out))
    shutil.rmtree(work, ignore_errors=True)
    return _cache


def callers(fn):
    return sorted({a for a, b in _build().get("edges", set()) if b == fn})


def fact(name, description, ok, detail=""):
    return dict(name=name, description=description + (" [" + detail + "]" if detail else ""),
                status="SUCCESS" if ok else "FAILURE")


def choke_point(tier):
    c = _build()
    if "error" in c:
        return [dict(name="static.build", description=c["error"], status="UNDECIDED", reason=c["error"])]
    out = []
    cr = callers("read_file")
    out.append(fact("static.callers.read_file",
                    "the parser read_file is called only from read_file_with_callback and its address is never taken",
                    cr == ["read_file_with_callback"] and "read_file" not in c["addr_taken"], "callers: %s" % cr))
    for fn, allowed in (("fopen", {"read_file", "econf_writeFile"}), ("getline", {"read_file"}),
                        ("open", set()), ("fdopen", set()), ("freopen", set()), ("fread", set()),
                        ("fgets", set()), ("read", set()), ("mmap", set())):
        cs = set(callers(fn))
        out.append(fact("static.callers." + fn,
                        "%s is called only from %s" % (fn, sorted(allowed) or "nowhere"),
                        cs <= allowed, "callers: %s" % sorted(cs)))
    return out


WHITELIST = {
    # documented process-wide state (property C18 exempts exactly these)
    "last_scanned_line_nr", "last_scanned_filename",
    "conf_dirs", "conf_count",
    "file_owner_set", "file_owner", "file_group_set", "file_group", "file_permissions_set",
    "file_perms_file", "file_perms_dir", "allow_follow_symlinks",
    # read-only message table and the buffer for out-of-range codes
    "messages", "econf_errString::1::1::buffer",
}


def statics(tier):
    c = _build()
    if "error" in c:
        return [dict(name="static.build", description=c["error"], status="UNDECIDED", reason=c["error"])]
    extra = sorted(c["statics"] - WHITELIST)
    return [fact("static.statics.whitelist",
                 "the linked library has no static-lifetime object (file-scope or function-local static) "
                 "outside the documented process-wide ones",
                 not extra, "unexpected: %s; found: %s" % (extra, sorted(c["statics"])))]


CHECKS = {"C06": [choke_point], "C16": [choke_point], "C18": [statics]}


def run(pid, tier):
    out = []
    for fn in CHECKS.get(pid, []):
        out.extend(fn(tier))
    return out
