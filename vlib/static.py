"""Supporting static facts, recomputed on every run from goto binaries built
from /repo's current sources: the call graph (who can reach the parser and
the file system) and the table of static-lifetime objects of the library.
They are mechanical facts about the linked program, not contracts; they
complement the frame conditions."""
import glob
import json
import os
import re
import shutil
import subprocess
import tempfile

from . import pipeline

_cache = {}


def _build():
    if "dir" in _cache:
        return _cache
    try:
        return _build2()
    finally:
        shutil.rmtree(_cache.get("dir", "/nonexistent"), ignore_errors=True)


def _build2():
    work = tempfile.mkdtemp(prefix="verif.static.", dir=os.environ.get("VERIF_SCRATCH", "/var/tmp"))
    _cache["dir"] = work
    gbs = []
    for src in sorted(glob.glob(os.path.join(pipeline.REPO, "lib", "*.c"))):
        gb = os.path.join(work, os.path.basename(src) + ".gb")
        p = subprocess.run(["goto-cc", "-c", "-D__NO_CTYPE", "-D_GNU_SOURCE",
                            "-I" + os.path.join(pipeline.REPO, "include"),
                            "-I" + os.path.join(pipeline.REPO, "lib"), src, "-o", gb],
                           stdout=subprocess.PIPE, stderr=subprocess.STDOUT)
        if p.returncode != 0:
            _cache["error"] = "goto-cc failed on %s: %s" % (src, p.stdout.decode()[-500:])
            return _cache
        gbs.append(gb)
    lib = os.path.join(work, "lib.gb")
    p = subprocess.run(["goto-cc", "--no-library", "-shared"] + gbs + ["-o", lib],
                       stdout=subprocess.PIPE, stderr=subprocess.STDOUT)
    if p.returncode != 0:
        _cache["error"] = "link failed: " + p.stdout.decode()[-500:]
        return _cache
    out = subprocess.run(["goto-instrument", "--call-graph", lib], stdout=subprocess.PIPE,
                         stderr=subprocess.DEVNULL).stdout.decode()
    edges = set()
    for l in out.splitlines():
        m = re.match(r"^(\S+) -> (\S+)$", l.strip())
        if m:
            edges.add((m.group(1), m.group(2)))
    _cache["edges"] = edges
    out = subprocess.run(["goto-instrument", "--show-symbol-table", "--json-ui", lib],
                         stdout=subprocess.PIPE, stderr=subprocess.DEVNULL).stdout.decode()
    statics = set()
    try:
        for item in json.loads(out):
            if isinstance(item, dict) and "symbolTable" in item:
                for name, s in item["symbolTable"].items():
                    if s.get("isStaticLifetime") and not s.get("isType") and not name.startswith("__CPROVER") \
                            and not s.get("isExtern") and "$" not in name.split("::")[-1]:
                        statics.add(name)
    except Exception as e:
        _cache["error"] = "symbol table: %r" % e
    _cache["statics"] = statics
    # functions whose address is taken (could be called through a pointer)
    out = subprocess.run(["goto-instrument", "--show-goto-functions", lib],
                         stdout=subprocess.PIPE, stderr=subprocess.DEVNULL).stdout.decode()
    _cache["addr_taken"] = set(re.findall(r"address_of\((\w+)\)", out))
    # who reads / writes each whitelisted process-wide object: function -> {"r": set, "w": set}
    acc = {}
    cur = None
    for l in out.splitlines():
        m = re.match(r"^(\S+) /\* (\S+) \*/$", l)
        if m:
            cur = m.group(1)
            continue
        t = l.strip()
        if cur is None or not t or t.startswith("//"):
            continue
        for g in GLOBALS:
            # the symbol itself, not a struct member (.x / ->x), a parameter or local (f::x)
            pat = r"(?<![\w.>:$])" + re.escape(g) + r"(?![\w$])"
            if not re.search(pat, t):
                continue
            a = acc.setdefault(g, {}).setdefault(cur, {"r": False, "w": False})
            rest = t
            mw = re.match(r"^(?:ASSIGN|CALL)\s+" + re.escape(g) + r"(?:\[[^=]*\])?\s*:=", t)
            if mw:
                a["w"] = True
                rest = t[mw.end():]
            if re.search(r"(?:strdup|strlen|strcmp)\(address_of\(" + re.escape(g) + r"(?![\w$])", rest):
                a["r"] = True            # source operand of a read-only libc function
            elif re.search(r"address_of\(" + re.escape(g) + r"(?![\w$])", rest):
                a["w"] = True            # handed to a callee that may write it (snprintf target)
                a["r"] = True
            elif re.search(pat, rest):
                a["r"] = True
    _cache["access"] = acc
    shutil.rmtree(work, ignore_errors=True)
    return _cache


def callers(fn):
    return sorted({a for a, b in _build().get("edges", set()) if b == fn})


def fact(name, description, ok, detail=""):
    return dict(name=name, description=description + (" [" + detail + "]" if detail else ""),
                status="SUCCESS" if ok else "FAILURE")


def choke_point(tier):
    c = _build()
    if "error" in c:
        return [dict(name="static.build", description=c["error"], status="UNDECIDED", reason=c["error"])]
    out = []
    cr = callers("read_file")
    out.append(fact("static.callers.read_file",
                    "the parser read_file is called only from read_file_with_callback and its address is never taken",
                    cr == ["read_file_with_callback"] and "read_file" not in c["addr_taken"], "callers: %s" % cr))
    for fn, allowed in (("fopen", {"read_file", "econf_writeFile"}), ("getline", {"read_file"}),
                        ("open", set()), ("fdopen", set()), ("freopen", set()), ("fread", set()),
                        ("fgets", set()), ("read", set()), ("mmap", set())):
        cs = set(callers(fn))
        out.append(fact("static.callers." + fn,
                        "%s is called only from %s" % (fn, sorted(allowed) or "nowhere"),
                        cs <= allowed, "callers: %s" % sorted(cs)))
    return out


GLOBALS = ["last_scanned_line_nr", "last_scanned_filename", "conf_dirs", "conf_count",
           "file_owner_set", "file_owner", "file_group_set", "file_group", "file_permissions_set",
           "file_perms_file", "file_perms_dir", "allow_follow_symlinks"]

WHITELIST = {
    # documented process-wide state (property C18 exempts exactly these)
    "last_scanned_line_nr", "last_scanned_filename",
    "conf_dirs", "conf_count",
    "file_owner_set", "file_owner", "file_group_set", "file_group", "file_permissions_set",
    "file_perms_file", "file_perms_dir", "allow_follow_symlinks",
    # read-only message table and the buffer for out-of-range codes
    "messages", "econf_errString::1::1::buffer",
}


def statics(tier):
    c = _build()
    if "error" in c:
        return [dict(name="static.build", description=c["error"], status="UNDECIDED", reason=c["error"])]
    extra = sorted(c["statics"] - WHITELIST)
    return [fact("static.statics.whitelist",
                 "the linked library has no static-lifetime object (file-scope or function-local static) "
                 "outside the documented process-wide ones",
                 not extra, "unexpected: %s; found: %s" % (extra, sorted(c["statics"])))]


# documented process-wide objects: who may write and who may read them (property C18: "every
# thread obtains exactly the results of running its calls alone" - a per-object operation must not
# DEPEND on the error-location record, and must not WRITE the documented global settings)
_SETTERS = {"econf_requireOwner", "econf_requireGroup", "econf_requirePermissions", "econf_followSymlinks",
            "econf_reset_security_settings"}
ACCESS_RULES = {
    "last_scanned_line_nr": ({"read_file"}, {"last_scanned_file"}),
    "last_scanned_filename": ({"read_file"}, {"last_scanned_file", "read_file"}),   # snprintf target: counted as read too
    "conf_dirs": ({"econf_set_conf_dirs"}, None),
    "conf_count": ({"econf_set_conf_dirs"}, None),
}
for _g in ("file_owner_set", "file_owner", "file_group_set", "file_group", "file_permissions_set",
           "file_perms_file", "file_perms_dir", "allow_follow_symlinks"):
    ACCESS_RULES[_g] = (_SETTERS, {"read_file_with_callback"})


def access(tier):
    c = _build()
    if "error" in c:
        return [dict(name="static.build", description=c["error"], status="UNDECIDED", reason=c["error"])]
    out = []
    for g, (writers, readers) in sorted(ACCESS_RULES.items()):
        a = c["access"].get(g, {})
        w = {f for f, x in a.items() if x["w"]}
        r = {f for f, x in a.items() if x["r"]}
        ok = w <= writers and (readers is None or r <= readers)
        out.append(fact("static.access." + g,
                        "process-wide object %s is written only by %s%s" % (
                            g, sorted(writers), "" if readers is None else " and read only by %s" % sorted(readers)),
                        ok, "writers: %s readers: %s" % (sorted(w), sorted(r))))
    return out


CHECKS = {"C06": [choke_point], "C16": [choke_point], "C18": [statics, access]}


def run(pid, tier):
    out = []
    for fn in CHECKS.get(pid, []):
        out.extend(fn(tier))
    return out
