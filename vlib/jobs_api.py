"""Jobs on the public set/get/list API (C11, C10, C07, C20): one operation on
an arbitrary well-formed object (harness/api.c)."""
from .pipeline import Job

Q, T = ("quick", "thorough"), ("thorough",)
OPS = {1: "econf_setStringValue", 2: "econf_getStringValue", 3: "econf_getStringValueDef",
       4: "econf_getGroups", 5: "econf_getKeys", 6: "econf_setIntValue"}
US = {"realloc.0": 34, "econf_getGroups.0": 5, "find_key.0": 6, "econf_getKeys.0": 6, "econf_getKeys.1": 6,
      "getFromGroupList.0": 5, "econf_freeFile.0": 14, "econf_freeArray.0": 6, "econf_newKeyFile.0": 9,
      "stripbrackets.0": 4}
FUNCS = ["setKeyValue", "new_key", "key_file_append", "initialize", "find_key", "setGroup", "setKey",
         "setGroupList", "getFromGroupList", "stripbrackets", "setStringValueNum", "getStringValueNum",
         "econf_newKeyFile", "econf_newIniFile", "econf_newKeyFile_with_options", "econf_freeFile", "econf_freeArray"]


def mk(n, slack, op, start, tiers):
    defs = ["-DREALLOC_WORDS=33", "-DN=%d" % n, "-DSLACK=%d" % slack, "-DOP=%d" % op]
    name = "api.%s.n%d.s%d" % (OPS[op], n, slack)
    if start:
        defs.append("-DSTART_NEW=%d" % start)
        name = "api.%s.new%d" % (OPS[op], start)
    props = ["C11", "C20", "C04"] + (["C10"] if op in (2, 3, 4, 5) else []) + (["C07"] if op == 1 else [])
    return Job(name, props, "harness/api.c",
               sources=["lib/libeconf.c", "lib/helpers.c", "lib/keyfile.c", "lib/get_value_def.c"],
               stubs=["stubs/numtext.c", "stubs/realloc_words.c"], contracts=["stubs/asprintf_shim.h"],
               unwind=14, post_unwindset=US, tier="T2", defines=defs, tiers=tiers, timeout=900, mem_gb=8,
               nobody_ok=[".*"], functions=[OPS[op]] + FUNCS,
               bounds=("start state: %s; " % (["", "econf_newKeyFile", "econf_newIniFile", "econf_newKeyFile_with_options"][start])
                       if start else "start state: any well-formed object with %d live entries (sections {group-less,A,B}, keys "
                       "{x,y}, symbolic, duplicates allowed) and %d unused pre-initialised slots; " % (n, slack))
                      + "arguments: section spelled NULL/\"\"/[]/A/[A]/B/[B], key NULL/\"\"/x/y",
               model="M-real (literal-length strings); numeric text M-tag for the typed setter",
               statement="C11: %s behaves as the reference ordered map says (create-or-replace exactly one entry at the "
                         "first match or the end, first-match lookup, default iff absent, listings = live sections/keys "
                         "in insertion order, section spellings agree, missing/empty key refused without effect); the "
                         "object stays well-formed incl. growth beyond the pre-allocated slots. C10: queries change "
                         "nothing (pointers and texts compared). C20: new entries fully initialised; destructor "
                         "accepts the object." % OPS[op])


def register(J):
    for n in (0, 1, 2, 3):
        for slack in (0, 1, 5):
            for op in OPS:
                quick = (n == 2 and slack in (0, 1)) or (n == 3 and slack == 0 and op == 1) or (n == 0 and slack == 0 and op in (1, 4, 5))
                J.append(mk(n, slack, op, 0, Q if quick else T))
    for start in (1, 2, 3):
        for op in (1, 2, 4, 5):
            J.append(mk(0, 0, op, start, Q if (start == 1 and op == 1) or (start == 3 and op == 1) else T))
