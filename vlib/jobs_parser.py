"""Scenario jobs on the parser read_file() (C02 C04 C05 C13 C15 C17)."""
from .pipeline import Job

DELIMS = {            # name -> (C literal of the set, separator text used in concrete lines)
    "eq": ("=", "="),
    "coloneq": (":=", ":"),
    "sp": (" ", " "),
    "sptab": (" \\t", "\\t"),
    "speq": (" =", " = "),
    "tabspeq": ("\\t =", "="),
    "none": ("", None),
}
COMMENTS = {"hash": "#", "semi": ";", "hashsemi": "#;"}


def contexts(sep, c):
    """name -> (lines, entries, last_is_entry, group, pending comment)"""
    if sep is None:  # keys only
        return {
            "S0": ([], 0, 0, "_none_", None),
            "S1": (["k"], 1, 1, "_none_", None),
            "S2": (["[g]"], 0, 0, "g", None),
            "S3": (["%sc" % c], 0, 0, "_none_", "c"),
            "S7": (["[g]", "k"], 1, 1, "g", None),
        }
    kv = "k%sv" % sep
    return {
        "S0": ([], 0, 0, "_none_", None),
        "S1": ([kv], 1, 1, "_none_", None),
        "S1q": (['k%s\\"v\\"' % sep], 1, 1, "_none_", None),
        "S2": (["[g]"], 0, 0, "g", None),
        "S3": (["%sc" % c], 0, 0, "_none_", "c"),
        "S3e": (["%s" % c], 0, 0, "_none_", ""),
        "S3i": ([kv, " %sc" % c], 1, 0, "_none_", "c"),
        "S4": (["%s %sc" % (kv, c)], 1, 1, "_none_", None),
        "S5": ([kv, " w"], 1, 1, "_none_", None),
        "S7": (["[g]", kv], 1, 1, "g", None),
        "SJ2": ([kv, "k%sw" % sep], 2, 1, "_none_", None),
        "S7l": (["[gh]", kv], 1, 1, "gh", None),   # an existing section whose name has proper prefixes
    }


STATEMENTS = {
    "K_ANY": "C04: for every byte string as the line under test read_file terminates with a documented code, "
             "closes the file, leaves a well-formed object and commits no out-of-bounds access, NULL "
             "dereference, use after free or overflow (all CBMC pointer/bounds/overflow checks on)",
    "K_COMMENT": "C05: a line whose first non-blank byte is a comment character (any text after it) changes no "
                 "section, key or value compared with the same file without that line, and is no error",
    "K_BLANK": "C02/C05: a blank line is inert",
    "K_ENTRY": "C02/C17: a conventional 'key sep value [comment]' line yields exactly one entry with the key "
               "text, the blank-trimmed / quote-stripped value, the section in effect, its line number and "
               "comments; all other entries unchanged",
    "K_HEADER": "C02: a [section] header adds no key, records the trimmed name; later keys belong to it",
    "K_CONT": "C02/C17: a continuation line appends newline + its text to the previous value and advances "
              "the entry's line number",
    "K_JOIN": "C15: with JOIN_SAME_ENTRIES a further definition of a key appends its value as a new line to the first "
              "definition's value, an empty definition resets it",
    "K_PYCONT": "C15: with PYTHON_STYLE every indented line continues the previous value with its indentation removed even if it "
                "contains the delimiter; comment characters stay part of the value",
    "K_BAD": "C13: malformed header / missing delimiter gives the specific code, the right file and the "
             "1-based line number",
}
PROPS = {
    "K_ANY": ["C04"], "K_COMMENT": ["C05", "C04", "C17"], "K_BLANK": ["C02", "C05"], "K_ENTRY": ["C02", "C17", "C07"],
    "K_HEADER": ["C02"], "K_CONT": ["C02", "C17", "C14", "C07"], "K_BAD": ["C13"], "K_PYCONT": ["C15"], "K_JOIN": ["C15"],
}


def mk(kind, dname, cname, ctxname, n, follow, tiers, python=0, join=0, props=None):
    dlit, sep = DELIMS[dname]
    clit = COMMENTS[cname]
    ctx = contexts(sep, clit[0])[ctxname]
    lines, entries, last_entry, group, pending = ctx
    defs = ['-DDELIM="%s"' % dlit, '-DCOMMENT="%s"' % clit, "-DKIND=" + kind, "-DN=%d" % n,
            "-DNCTX=%d" % len(lines), "-DCTX_ENTRIES=%d" % entries, "-DCTX_LAST_ENTRY=%d" % last_entry,
            '-DCTX_GROUP="%s"' % group]
    for i, l in enumerate(lines):
        defs.append('-DCTX%d="%s\\n"' % (i, l))
    if pending is not None:
        defs.append('-DCTX_PENDING="%s"' % pending)
    if follow:
        fl = "z" if sep is None else "z%s1" % sep
        defs.append('-DFOLLOW="%s\\n"' % fl)
    if sep is None:
        defs.append("-DKEYS_ONLY=1")
    if python:
        defs.append("-DPYTHON=1")
    if join:
        defs.append("-DJOIN=1")
    name = "parser.%s.%s.%s.%s.n%d%s%s%s" % (kind[2:].lower(), dname, cname, ctxname, n,
                                             ".f" if follow else "", ".py" if python else "", ".join" if join else "")
    return Job(name, props or PROPS[kind], "harness/parser.c",
               sources=["lib/getfilecontents.c", "lib/helpers.c"], stubs=["stubs/stdio_real.c"],
               contracts=["contracts/bufsiz_small.h", "contracts/readfile.h"], unwind=n + 4, tier="T2",
               post_unwindset=({"join_same_entries@1": 5, "join_same_entries@2": 5, "join_same_entries@3": n + 2,
                                "join_same_entries@4": n + 2} if join else None),
               bounds="line under test <= %d bytes (every byte value); context %s = %r%s; delimiters %r comments %r"
                      % (n, ctxname, lines, " + follow-up entry" if follow else "", dlit, clit),
               object_bits=(10 if join else None),
               model="M-real", defines=defs, timeout=1500, mem_gb=(12 if join else 8 if kind == "K_CONT" else 3), tiers=tiers, replay="parser",
               functions=["read_file", "store", "check_delim", "setGroupList", "getFromGroupList"],
               trusted=["fopen/getline/fclose hand out the scenario's lines (stubs/stdio_real.c); "
                        "asprintf/snprintf/strndup byte-level models; __attribute__((cleanup)) on org_buf is "
                        "dropped by goto-cc; BUFSIZ scaled to 4 so that every line is longer than the initial line buffer"],
               statement=STATEMENTS[kind])


def register(J):
    Q, T = ("quick", "thorough"), ("thorough",)
    # C04: arbitrary bytes
    for ctx in ("S0", "S1", "S5", "S7", "S3i", "S4"):
        J.append(mk("K_ANY", "eq", "hash", ctx, 8, True, Q if ctx in ("S0", "S1", "S5") else T))
    for d in ("sp", "speq", "coloneq", "none", "sptab", "tabspeq"):
        J.append(mk("K_ANY", d, "hash" if d != "speq" else "hashsemi", "S1", 8, True, Q if d in ("sp", "speq") else T))
    J.append(mk("K_ANY", "eq", "hash", "S1", 8, True, Q, python=1))
    J.append(mk("K_ANY", "eq", "hashsemi", "S1", 10, True, T))
    J.append(mk("K_ANY", "sp", "hash", "S5", 8, True, T, python=1))
    # C05: comment lines
    for ctx in ("S0", "S1", "S2", "S3", "S3e", "S4", "S5", "S7", "S1q"):
        J.append(mk("K_COMMENT", "eq", "hash", ctx, 8, True, Q if ctx in ("S1", "S5", "S7", "S3e") else T,
                    props=["C05", "C04", "C17"]))
    for d, c in (("sp", "hash"), ("speq", "hashsemi"), ("coloneq", "semi"), ("none", "hash"), ("sptab", "hashsemi"), ("tabspeq", "hash")):
        J.append(mk("K_COMMENT", d, c, "S1", 8, True, Q if d in ("sp", "speq") else T))
    J.append(mk("K_COMMENT", "eq", "hashsemi", "S5", 10, True, T))
    # C02: blank, entry, header, continuation
    for d, c in (("eq", "hash"), ("sp", "hash"), ("speq", "hashsemi")):
        J.append(mk("K_BLANK", d, c, "S5", 6, True, Q if d == "eq" else T))
    for d, c in (("eq", "hash"), ("coloneq", "semi"), ("sp", "hash"), ("sptab", "hash"), ("speq", "hashsemi"), ("tabspeq", "hash")):
        for ctx in ("S0", "S1", "S3", "S7"):
            quick = (d in ("eq", "sp", "speq") and ctx in ("S1", "S7")) or (d == "eq") or (d == "coloneq" and ctx == "S1")
            J.append(mk("K_ENTRY", d, c, ctx, 9, ctx != "S0", Q if quick else T))
    J.append(mk("K_ENTRY", "none", "hash", "S1", 6, True, Q))
    J.append(mk("K_ENTRY", "eq", "hash", "S1", 11, True, T))
    J.append(mk("K_HEADER", "eq", "hash", "S7l", 7, True, Q))
    for d, c in (("eq", "hash"), ("sp", "hash"), ("speq", "hashsemi"), ("none", "hash"), ("coloneq", "semi")):
        for ctx in ("S0", "S1", "S7"):
            J.append(mk("K_HEADER", d, c, ctx, 7, True, Q if (d == "eq" or ctx == "S1") else T))
    for d, c in (("eq", "hash"), ("sp", "hash"), ("coloneq", "semi"), ("sptab", "hash")):
        for ctx in ("S1", "S5", "S7"):
            J.append(mk("K_CONT", d, c, ctx, 6, True, Q if (d == "eq" or ctx == "S1") else T))
    # C15: PYTHON_STYLE
    for d, c in (("eq", "hash"), ("sp", "hash"), ("coloneq", "semi")):
        for ctx in ("S1", "S5", "S7"):
            J.append(mk("K_PYCONT", d, c, ctx, 7, True, Q if (d == "eq" and ctx in ("S1", "S5")) or (d == "sp" and ctx == "S1") else T, python=1))
    for d, c in (("eq", "hash"), ("sp", "hash")):
        J.append(mk("K_ENTRY", d, c, "S1", 8, True, Q if d == "eq" else T, python=1, props=["C15", "C02"]))
    J.append(mk("K_COMMENT", "eq", "hash", "S1", 8, True, Q, python=1))
    # C13: malformed lines
    for d, c in (("eq", "hash"), ("coloneq", "semi"), ("sp", "hash"), ("speq", "hashsemi")):
        for ctx in ("S0", "S1", "S3", "S5", "S7"):
            J.append(mk("K_BAD", d, c, ctx, 7, True, Q if (d == "eq" or (d == "sp" and ctx == "S1")) else T))
    J.append(mk("K_BAD", "eq", "hash", "S1", 9, True, Q))
