"""Jobs on the layered readers (C01 C06 C12 C13 C20): lib/readconfig.c,
lib/mergefiles.c (directory part), the entry points of lib/libeconf.c.

The call chain is verified modularly.  Each function is run as real code
against the EXECUTABLE FORM of its callees' contracts (stubs/h1.c, h2.c, h3.c,
harness/wrappers.c); every such contract is itself the asserted postcondition
of the job that runs the callee as real code:
  entry points (wrappers.*)  ->  readConfigWithCallback (rcwc, dfcc)
    -> readConfigHistoryWithCallback (history.*) -> traverse_conf_dirs +
       check_conf_dir (dropins.*) -> read_file_with_callback (rfwc, dfcc)
    -> merge_econf_files (fold.*) -> econf_mergeFiles (merge.*)
"""
from .pipeline import Job

Q, T = ("quick", "thorough"), ("thorough",)
SHIM = ["stubs/asprintf_shim.h"]
FS_TRUST = ["file system and callback behave as the stubs allow: any state per file (absent, readable, parse error, "
            "rejected by callback, wrong owner), any directory content returned by scandir in alphasort order"]


def register(J):
    # --- history ---------------------------------------------------------
    sfx = {"dot": ('".s"', '".s"'), "nodot": ('"s"', '".s"'), "null": ("NULL", '""'), "empty": ('""', '""')}
    for nl in (1, 2, 3):
        for npost in (0, 1, 2):
            for sname, (sa, sn) in sfx.items():
                quick = (nl, npost, sname) in ((2, 0, "dot"), (3, 2, "nodot"), (2, 1, "null"))
                us = {"readConfigHistoryWithCallback.0": nl + 1, "readConfigHistoryWithCallback.1": max(1, npost) + 1,
                      "readConfigHistoryWithCallback.2": 9, "readConfigHistoryWithCallback.3": nl + 1,
                      "traverse_conf_dirs.0": 3, "traverse_conf_dirs.1": 9, "traverse_conf_dirs.2": 3}
                defs = ["-DNLAYERS=%d" % nl, "-DNPOST=%d" % npost, "-DSUFFIX_ARG=" + sa, "-DSUFFIX_NORM=" + sn]
                if quick and nl == 2 and npost == 0:
                    defs.append("-DNAME_NULL=1")
                J.append(Job("history.l%d.p%d.%s" % (nl, npost, sname), ["C01", "C06", "C12", "C13", "C20", "C16", "C14"],
                             "harness/history.c", sources=["lib/readconfig.c", "lib/helpers.c"], stubs=["stubs/h1.c"],
                             contracts=SHIM + ["contracts/pathmax_small.h"], unwind=12, post_unwindset=us, tier="T2", defines=defs,
                             tiers=Q if quick else T, timeout=900, mem_gb=6, nobody_ok=[".*"],
                             functions=["readConfigHistoryWithCallback", "combine_strings"], trusted=FS_TRUST,
                             bounds="%d layers, %s drop-in dir postfixes, suffix argument %s; per layer 0-2 drop-ins appended "
                                    "by the (contract of the) directory traversal; every file state symbolic; PATH_MAX scaled to 6 "
                                    "(every candidate path is longer than a PATH_MAX-sized buffer)"
                                    % (nl, npost or "default", sa),
                             model="M-real (short concrete path components)",
                             statement="C01: main file taken from the highest layer that has one (absent files skipped, an "
                                       "empty/unreadable one counts), lower ones not read after a hit; drop-in dirs of all "
                                       "layers traversed in ascending order with <dir>/<name>, normalised suffix and the "
                                       "postfix list; nothing at all -> ECONF_NOFILE. C06/C13: first failing file aborts with "
                                       "its code, callback/data forwarded to every read. C20: after a failure every object "
                                       "created is released and the history pointer is NULL or untouched; on success "
                                       "exactly the handed-out objects are live. C12: history = files read, NULL-terminated."))
    # --- drop-in directories ---------------------------------------------
    for npost, suffix, pre, tiers in ((1, ".s", 1, Q), (2, ".s", 0, Q), (1, "", 1, Q), (2, ".s", 2, T), (2, "", 1, T),
                                      (1, ".s", 0, T), (1, "s", 1, T), (2, ".b", 1, T)):
        defs = ["-DNPOST=%d" % npost, '-DSUFFIX="%s"' % suffix, "-DPRE=%d" % pre]
        if suffix == "":
            defs.append("-DSUFFIX_EMPTY=1")
        J.append(Job("dropins.p%d.s%s.pre%d" % (npost, suffix.replace(".", "dot") or "none", pre),
                     ["C01", "C06", "C13", "C20", "C04", "C16"], "harness/dropins.c",
                     sources=["lib/mergefiles.c", "lib/helpers.c"], stubs=["stubs/h2.c", "stubs/strstr_real.c"], contracts=SHIM,
                     unwind=14, post_unwindset={"traverse_conf_dirs.0": npost + 1, "check_conf_dir.0": 3,
                                                "check_conf_dir.1": 3, "realloc.0": 9},
                     tier="T2", defines=defs, tiers=tiers, timeout=900, mem_gb=6, nobody_ok=[".*"], trusted=FS_TRUST,
                     functions=["traverse_conf_dirs", "check_conf_dir", "combine_strings"],
                     bounds="%d drop-in directories with <= 2 names of <= 4 bytes over {a,b,.,s} (symbolic, ascending "
                            "byte order), suffix %r, %d earlier members" % (npost, suffix, pre),
                     model="M-real",
                     statement="C01: scandir is asked for unfiltered alphasort order; exactly the names strictly longer than "
                               "the suffix and ending in it are consulted, directory by directory in name order, under "
                               "<dir>/<name>; C06/C13: the first failing drop-in aborts with its code; C20: the object of a "
                               "failing drop-in is released, the array has exactly size slots; C12: new members carry "
                               "their path."))
    # --- masking and fold --------------------------------------------------
    for k in (1, 2, 3, 4):
        J.append(Job("fold.k%d" % k, ["C01", "C12", "C20"], "harness/fold.c", sources=["lib/mergefiles.c"],
                     stubs=["stubs/h3.c"], unwind=14, tier="T2", defines=["-DK=%d" % k], tiers=Q,
                     timeout=600, mem_gb=4, nobody_ok=[".*"], functions=["merge_econf_files"],
                     bounds="history of %d files; layers 0-2, drop-in base names {a,ab,b}, first member main file or drop-in" % k,
                     model="M-real",
                     statement="C01/C12: merging the history left to right, skipping a drop-in when a later member has the "
                               "same base name, the main file never skipped; C20: every input marked on_merge_delete and "
                               "every intermediate result is released exactly once."))
    # --- readConfigWithCallback (dfcc) ---------------------------------------
    J.append(Job("rcwc", ["C06", "C12", "C20", "C01"], "harness/rcwc.c", sources=["lib/readconfig.c"],
                 contracts=["contracts/rcwc.h"], enforce="readConfigWithCallback",
                 replace=["readConfigHistoryWithCallback", "merge_econf_files", "econf_freeFile"],
                 unwind=8, tier="T1", timeout=600, mem_gb=8, tiers=Q,
                 expect=[r"readConfigWithCallback\.postcondition\.", r"readConfigHistoryWithCallback\.precondition"],
                 statement="C12: the merged reader = history reader on the object's layers/options (object's own drop-in "
                           "list wins) + merge of that very array; C06: callback/data forwarded, a failing file leaves "
                           "the caller's object untouched and merges nothing; C20: placeholder object and history array "
                           "released exactly once."))
    # --- entry points -------------------------------------------------------------
    us = {"econf_newKeyFile_with_options.0": 2, "econf_freeFile.0": 2}
    for fn in (1, 2, 3, 4, 7, 8):
        J.append(Job("wrappers.fn%d" % fn, ["C12", "C06", "C20", "C13"] + (["C16"] if fn >= 7 else []),
                     "harness/wrappers.c", sources=["lib/libeconf.c"], stubs=["stubs/snprintf_real.c"], contracts=SHIM,
                     unwind=26, post_unwindset=us, tier="T2", defines=["-DFN=%d" % fn], tiers=Q, timeout=900, mem_gb=8,
                     nobody_ok=[".*"], bounds="directory arguments NULL or a 2-byte path", model="M-real",
                     functions=[["econf_readDirs", "econf_readDirsWithCallback", "econf_readDirsHistory",
                                 "econf_readDirsHistoryWithCallback", "", "", "econf_readFile",
                                 "econf_readFileWithCallback"][fn - 1], "econf_newKeyFile_with_options", "econf_freeFile"],
                     statement="C12: every two-directory entry point hands the SAME tuple to the internal reader (two "
                               "layers dist-or-empty < etc-or-empty, name, suffix, delimiters, comment set, no options, "
                               "process-wide drop-in list); C06: callback/data forwarded unchanged (none for the plain "
                               "variants); C06/C20: after a failure no object/history is handed back."))
    for fn in (5, 6):
        for vn in (0, 1):
            for vp in (0, 1):
                for vs in (0, 1):
                    for vo in (0, 1, 2):
                        quick = (vn, vp, vs, vo) in ((1, 1, 1, 0), (0, 1, 1, 2), (0, 0, 0, 0), (1, 0, 1, 1), (1, 1, 1, 2), (1, 0, 0, 2)) and fn == 6
                        J.append(Job("wrappers.fn%d.n%dp%ds%do%d" % (fn, vn, vp, vs, vo), ["C01", "C12", "C06", "C20"],
                                     "harness/wrappers.c", sources=["lib/libeconf.c"], stubs=["stubs/snprintf_real.c"],
                                     contracts=SHIM, unwind=26, post_unwindset=us, tier="T2",
                                     defines=["-DFN=%d" % fn, "-DV_NAME=%d" % vn, "-DV_PROJECT=%d" % vp,
                                              "-DV_SUBDIR=%d" % vs, "-DV_OWN=%d" % vo],
                                     tiers=Q if quick else T, timeout=900, mem_gb=8, nobody_ok=[".*"],
                                     functions=["econf_readConfig" if fn == 5 else "econf_readConfigWithCallback"],
                                     bounds="config name %s, project %s, usr_subdir %s, %s"
                                            % ("given" if vn else "NULL", "given" if vp else "NULL", "given" if vs else "NULL",
                                               ["object created by the call", "caller's object", "caller's object with ROOT_PREFIX"][vo]),
                                     model="M-real",
                                     statement="C01: three default layers <root><usr_subdir>[/<project>] < <root>/run[/<project>] "
                                               "< <root>/etc[/<project>]; without config name the project names the drop-in "
                                               "directory (<project>.d); neither given: refused, no crash. C06/C20: on failure "
                                               "the pointer is NULL again or still the caller's own object."))
