"""Evidence writer: /verif/evidence/<id>.json, rewritten by every run from
what the run actually did."""
import json
import os
import re

from . import pipeline, registry

CONTRACT_KINDS = re.compile(r"\.(postcondition|precondition|precondition_instance|assigns|frees|"
                            r"loop_invariant_base|loop_invariant_step|loop_decreases|"
                            r"loop_assigns|loop_step_unwinding|assertion)\.")


def scan_assumptions(job):
    """Mechanical scan: every __CPROVER_assume in the harness and stubs."""
    found = []
    for rel in [job.harness] + job.stubs:
        try:
            with open(os.path.join(pipeline.VERIF, rel)) as f:
                for i, l in enumerate(f, 1):
                    if "__CPROVER_assume" in l:
                        found.append("%s:%d %s" % (rel, i, l.strip()[:140]))
        except OSError:
            pass
    return found


def nontrivial(o):
    """An obligation is counted as non-trivial when it is a contract clause
    (pre/postcondition, frame, loop invariant, harness assertion) or a safety
    check located in /repo code (not inside a libc model or the harness)."""
    if CONTRACT_KINDS.search(o["name"] + "."):
        return True
    return o["file"].startswith(pipeline.REPO + "/")


def write(prop, tier, seed, results, static_results, wall, n_violations, undecided, known_lines):
    meta = registry.PROPS[prop]
    t1_total = t1_ok = t2_total = t2_ok = 0
    per_job = []
    functions = set()
    trusted = set()
    assumptions = set()
    samples = []
    distinct = set()
    solver_s = 0.0
    for r in results:
        j = r.job
        obs = [o for o in r.obligations if not o["vacuity"]]
        ok = [o for o in obs if o["status"] == "SUCCESS"]
        if j.tier == "T1":
            t1_total += len(obs)
            t1_ok += len(ok)
        else:
            t2_total += len(obs)
            t2_ok += len(ok)
        for o in obs:
            if nontrivial(o):
                distinct.add((j.name, o["function"], o["description"], o["text"]))
        functions.update(j.functions)
        trusted.update(j.trusted)
        for s in j.stubs:
            trusted.add("stub " + s)
        for c in j.replace:
            trusted.add("callee replaced by its contract in job %s: %s" % (j.name, c))
        assumptions.update(scan_assumptions(j))
        solver_s += r.solver_seconds
        per_job.append(dict(job=j.name, tier=j.tier, bounds=j.bounds, string_model=j.model,
                            enforce=j.enforce, replaced=j.replace, loop_contracts=[list(x) for x in r.injected],
                            obligations=len(obs), passed=len(ok),
                            failed=[o["name"] for o in obs if o["status"] == "FAILURE"],
                            vacuity_checks=len([o for o in r.obligations if o["vacuity"]]),
                            vacuity_ok=r.vacuity_ok, undecided=r.undecided,
                            backend="cbmc 6.11 SAT (minisat2)" if not any("--sat-solver" in x or "--cvc5" in x or "--z3" in x for x in j.extra_cbmc) else " ".join(j.extra_cbmc),
                            seconds=round(r.seconds, 1), solver_seconds=round(r.solver_seconds, 1),
                            statement=j.statement))
        picks = [o for o in obs if ".postcondition." in o["name"] or ".assigns." in o["name"]
                 or "loop_invariant" in o["name"] or ".assertion." in o["name"]][:3]
        for o in picks:
            samples.append(dict(job=j.name, obligation=o["name"], description=o["description"],
                                at="%s:%s" % (o["file"], o["line"]), source=o["text"][:160],
                                status=o["status"], tier=j.tier))
    static_ok = len([s for s in static_results if s["status"] == "SUCCESS"])
    for s in static_results:
        samples.append(dict(job="static", obligation=s["name"], description=s["description"], status=s["status"]))
        distinct.add(("static", s["name"]))
    level = meta["category"]
    cov = dict(
        obligations=t1_total + len(static_results),
        discharged=t1_ok + static_ok,
        bounded_obligations=t2_total,
        bounded_passed=t2_ok,
        checker_cmd="goto-cc -> goto-instrument --add-library [--unwindset] --dfcc main "
                    "--enforce-contract <f> [--replace-call-with-contract <g>] [--apply-loop-contracts] "
                    "-> cbmc (cbmc 6.11.0); per job see jobs[].  ./check %s --tier %s" % (prop, tier),
        trusted_base=sorted(trusted),
        evaluations=t1_total + t2_total + len(static_results),
        distinct_nontrivial=len(distinct),
        rule="one case = one verification condition CBMC generated from /repo's current source for a "
             "function under contract (contract clause, frame check, loop-invariant step, or a "
             "pointer/bounds/overflow check inside /repo code). Distinct = different (job, function, "
             "description, source line); non-trivial = contract clause or safety check located in /repo "
             "code (checks inside libc models and harness code are not counted).",
        samples=samples[:40],
        functions_under_contract=sorted(f for f in functions if f),
        jobs=per_job,
        solver_seconds=round(solver_s, 1),
        tier_note="obligations/discharged count T1 (no input-size bound) obligations only; "
                  "bounded_* are T2 obligations proved only up to the stated bounds and never counted as discharged",
        undecided=[dict(job=n, reason=w[:300]) for n, w in undecided],
        known_findings=known_lines,
        exhaustive=False,
        explanation=meta["text"],
    )
    ev = dict(property_id=prop, tier=tier, seed=seed, level=level, coverage=cov,
              assumptions=sorted(assumptions) + list(meta.get("assumptions", [])),
              wall_s=round(wall, 1), violations=n_violations)
    os.makedirs(os.path.join(pipeline.VERIF, "evidence"), exist_ok=True)
    with open(os.path.join(pipeline.VERIF, "evidence", prop + ".json"), "w") as f:
        json.dump(ev, f, indent=1)
