"""goto-cc -> goto-instrument (--add-library, --unwindset, --dfcc) -> cbmc
for one job, with time/memory limits and result parsing.

Nothing here decides a property; it only turns a Job description into a list
of decided obligations (SUCCESS / FAILURE) or an `undecided` reason.
"""
import json
import os
import re
import resource
import shutil
import subprocess
import time

from . import inject

VERIF = os.path.dirname(os.path.dirname(os.path.abspath(__file__)))
REPO = os.environ.get("VERIF_REPO", "/repo")
NMF = "--no-malloc-may-fail"

COMMON_CC = ["-D__NO_CTYPE", "-D_GNU_SOURCE", "-DLIBECONF_VERIF_CBMC",
             "-I" + os.path.join(REPO, "include"), "-I" + os.path.join(REPO, "lib"),
             "-I" + os.path.join(VERIF, "contracts"), "-I" + os.path.join(VERIF, "stubs"),
             "-I" + os.path.join(VERIF, "harness")]

DEFAULT_CHECKS = ["--bounds-check", "--pointer-check", "--pointer-primitive-check",
                  "--div-by-zero-check", "--signed-overflow-check",
                  "--undefined-shift-check"]

SUSPICIOUS = [r"ignoring forall", r"ignoring exists", r"Parse Error", r"\bUNKNOWN\b",
              r"no body for (?:callee|function)"]


class Job:
    def __init__(self, name, props, harness, sources=(), stubs=(), contracts=(),
                 enforce=None, replace=(), loop_tags=(), apply_loops=False,
                 unwindset=None, unwind=None, defines=(), checks=None,
                 extra_cbmc=(), tier="T1", bounds="", model="", timeout=600,
                 mem_gb=12, expect=(), tiers=("quick", "thorough"), replay=None,
                 trusted=(), functions=(), statement="", nobody_ok=(),
                 carries=None, object_bits=None, post_unwindset=None, pre_unwind=None, harness_defines=(),
                 known=None):
        self.name = name
        self.props = list(props)
        self.harness = harness
        self.sources = list(sources)
        self.stubs = list(stubs)
        self.contracts = list(contracts)
        self.enforce = enforce
        self.replace = list(replace)
        self.loop_tags = list(loop_tags)
        self.apply_loops = apply_loops or bool(loop_tags)
        self.unwindset = dict(unwindset or {})
        self.post_unwindset = dict(post_unwindset or {})
        self.unwind = unwind
        self.pre_unwind = pre_unwind
        self.defines = list(defines)
        self.harness_defines = list(harness_defines)  # harness and stubs only (sources can be cached)
        self.checks = DEFAULT_CHECKS if checks is None else list(checks)
        self.extra_cbmc = list(extra_cbmc)
        self.tier = tier            # T1 (no input-size bound) or T2 (bounded)
        self.bounds = bounds
        self.model = model
        self.timeout = timeout
        self.mem_gb = mem_gb
        self.expect = list(expect)  # regexes that must match some obligation name
        self.tiers = tuple(tiers)
        self.replay = replay
        self.trusted = list(trusted)
        self.functions = list(functions) or ([enforce] if enforce else [])
        self.statement = statement
        self.nobody_ok = list(nobody_ok)  # callees that legitimately have no body
        self.carries = carries
        self.object_bits = object_bits
        self.known = known


def _limits(mem_gb):
    def f():
        resource.setrlimit(resource.RLIMIT_AS, (int(mem_gb * 2**30), int(mem_gb * 2**30)))
        os.setsid()
    return f


def run(cmd, timeout, mem_gb, log, cwd=None):
    t0 = time.time()
    log.write("$ " + " ".join(cmd) + "\n")
    log.flush()
    try:
        p = subprocess.run(cmd, stdout=subprocess.PIPE, stderr=subprocess.STDOUT,
                           timeout=timeout, preexec_fn=_limits(mem_gb), cwd=cwd)
        out = p.stdout.decode("utf-8", "replace")
        rc = p.returncode
    except subprocess.TimeoutExpired as e:
        out = (e.stdout or b"").decode("utf-8", "replace")
        rc = "timeout"
    dt = time.time() - t0
    return rc, out, dt


class JobResult:
    def __init__(self, job):
        self.job = job
        self.obligations = []   # dicts: name, description, status, file, line, function, text
        self.undecided = None   # reason string
        self.seconds = 0.0
        self.solver_seconds = 0.0
        self.vacuity_ok = None
        self.injected = []
        self.cmds = []
        self.log_path = None
        self.workdir = None
        self.final_gb = None

    @property
    def failures(self):
        return [o for o in self.obligations if o["status"] == "FAILURE" and not o["vacuity"]]


def _src_line(path, line):
    try:
        with open(path, errors="replace") as f:
            for i, l in enumerate(f, 1):
                if i == line:
                    return l.strip()
    except Exception:
        pass
    return ""


def build(job, work, log, spec_blocks):
    """Compile and instrument.  Returns (final_gb_path, injected) or raises."""
    res_injected = []
    gbs = []
    inc = []
    for c in job.contracts:
        inc += ["-include", os.path.join(VERIF, c)]
    defs = list(job.defines)
    # 1. sources from /repo, with loop contracts injected
    for rel in job.sources:
        ckey = (rel, tuple(defs), tuple(job.contracts), tuple(job.loop_tags))
        with _SRC_LOCK:
            cached = _SRC_CACHE.get(ckey)
        if cached and os.path.exists(cached[0]):
            gbs.append(cached[0])
            res_injected += cached[1]
            continue
        out_c = os.path.join(work, rel.replace("/", "__"))
        if job.loop_tags:
            res_injected += [(rel,) + t for t in
                             inject.inject(REPO, rel, spec_blocks, job.loop_tags, out_c)]
        else:
            inject.inject(REPO, rel, [], [], out_c)
        gb = out_c + ".gb"
        tu = ["-DVERIF_TU_" + re.sub(r"\W", "_", os.path.basename(rel)[:-2])]
        rc, out, dt = run(["goto-cc", "-c"] + COMMON_CC + defs + tu + inc + [out_c, "-o", gb],
                          300, 8, log)
        log.write(out)
        if rc != 0:
            raise BuildError("goto-cc failed on %s:\n%s" % (rel, out[-2000:]))
        os.makedirs(_CACHE_DIR, exist_ok=True)
        cgb = os.path.join(_CACHE_DIR, "%d.%s.gb" % (abs(hash(ckey)), rel.replace("/", "__")))
        shutil.copy(gb, cgb)
        with _SRC_LOCK:
            _SRC_CACHE[ckey] = (cgb, [t for t in res_injected if t[0] == rel])
        gbs.append(gb)
    # 2. harness and stubs
    for rel in [job.harness] + job.stubs:
        src = os.path.join(VERIF, rel)
        gb = os.path.join(work, rel.replace("/", "__") + ".gb")
        rc, out, dt = run(["goto-cc", "-c"] + COMMON_CC + defs + job.harness_defines + inc + [src, "-o", gb],
                          300, 8, log)
        log.write(out)
        if rc != 0:
            raise BuildError("goto-cc failed on %s:\n%s" % (rel, out[-2000:]))
        gbs.append(gb)
    a = os.path.join(work, "a.gb")
    rc, out, dt = run(["goto-cc"] + gbs + ["-o", a], 300, 8, log)
    log.write(out)
    if rc != 0:
        raise BuildError("link failed:\n" + out[-2000:])
    cur = a
    # 3. library models
    nxt = os.path.join(work, "b.gb")
    rc, out, dt = run(["goto-instrument", NMF, "--add-library", cur, nxt], 300, 8, log)
    log.write(out)
    if rc != 0:
        raise BuildError("add-library failed:\n" + out[-2000:])
    cur = nxt
    # 4. pre-unwinding of loops without contracts (library models, literal-bounded)
    if job.unwindset:
        nxt = os.path.join(work, "c.gb")
        us = ",".join("%s:%d" % kv for kv in job.unwindset.items())
        rc, out, dt = run(["goto-instrument", NMF, "--unwindset", us, "--unwinding-assertions",
                           cur, nxt], 300, 8, log)
        log.write(out)
        if rc != 0:
            raise BuildError("unwindset failed:\n" + out[-2000:])
        cur = nxt
    elif job.pre_unwind is not None and not job.apply_loops:
        # no loop contracts in this job: unwind every loop (library models,
        # literal-bounded loops, harness loops) BEFORE dfcc, so that dfcc's own
        # write-set loops keep the bounds dfcc gives them
        nxt = os.path.join(work, "c.gb")
        rc, out, dt = run(["goto-instrument", NMF, "--unwind", str(job.pre_unwind),
                           "--unwinding-assertions", cur, nxt], 300, 8, log)
        log.write(out)
        if rc != 0:
            raise BuildError("unwind failed:\n" + out[-2000:])
        cur = nxt
    # 5. contracts
    if job.enforce or job.replace or job.apply_loops:
        nxt = os.path.join(work, "d.gb")
        cmd = ["goto-instrument", NMF, "--dfcc", "main"]
        if job.enforce:
            cmd += ["--enforce-contract", job.enforce]
        for r in job.replace:
            cmd += ["--replace-call-with-contract", r]
        if job.apply_loops:
            cmd += ["--apply-loop-contracts"]
        cmd += [cur, nxt]
        rc, out, dt = run(cmd, 600, 12, log)
        log.write(out)
        if rc != 0:
            raise BuildError("dfcc failed:\n" + out[-3000:])
        cur = nxt
    return cur, res_injected


import threading
import atexit
_SRC_CACHE = {}
_SRC_LOCK = threading.Lock()
_CACHE_DIR = os.path.join(os.environ.get("VERIF_SCRATCH", "/var/tmp"), "verif.%d.cache" % os.getpid())
atexit.register(lambda: shutil.rmtree(_CACHE_DIR, ignore_errors=True))


class BuildError(Exception):
    pass


_LOOP_CACHE = {}


def resolve_loops(gb, unwindset):
    """Keys of the form `function@k` name the k-th loop of `function` in
    TEXTUAL order (by source line); CBMC numbers loops by back-edge position,
    which changes when code is edited.  Resolve them with --show-loops."""
    if not any("@" in k for k in unwindset):
        return dict(unwindset)
    if gb not in _LOOP_CACHE:
        out = subprocess.run(["cbmc", "--show-loops", gb], stdout=subprocess.PIPE,
                             stderr=subprocess.DEVNULL).stdout.decode("utf-8", "replace")
        loops = {}
        cur = None
        for l in out.splitlines():
            m = re.match(r"^Loop (\S+)\.(\d+):", l)
            if m:
                cur = (m.group(1), int(m.group(2)))
                continue
            m = re.search(r"line (\d+) function (\S+)", l)
            if m and cur:
                loops.setdefault(cur[0], []).append((int(m.group(1)), cur[1]))
                cur = None
        _LOOP_CACHE[gb] = {f: [i for _, i in sorted(v)] for f, v in loops.items()}
    table = _LOOP_CACHE[gb]
    res = {}
    for k, v in unwindset.items():
        if "@" in k:
            f, n = k.split("@")
            ids = table.get(f, [])
            if int(n) <= len(ids):
                res["%s.%d" % (f, ids[int(n) - 1])] = v
        else:
            res[k] = v
    return res


def cbmc_cmd(job, gb, trace_prop=None):
    cmd = ["cbmc", NMF] + job.checks + job.extra_cbmc
    if job.unwind is not None:
        cmd += ["--unwind", str(job.unwind), "--unwinding-assertions"]
    if job.post_unwindset:
        cmd += ["--unwindset", ",".join("%s:%d" % kv for kv in resolve_loops(gb, job.post_unwindset).items()),
                "--unwinding-assertions"]
    if job.object_bits:
        cmd += ["--object-bits", str(job.object_bits)]
    if trace_prop:
        cmd += ["--property", trace_prop, "--trace"]
    cmd += ["--json-ui", gb]
    return cmd


def parse_cbmc_json(out):
    """Returns (results list or None, messages text, solver seconds)."""
    try:
        start = out.index("[")
        data = json.loads(out[start:])
    except Exception:
        return None, out, 0.0, None
    results = None
    msgs = []
    solver = 0.0
    status = None
    for item in data:
        if not isinstance(item, dict):
            continue
        if "result" in item:
            results = item["result"]
        if "messageText" in item:
            msgs.append(item["messageText"])
            m = re.search(r"Runtime (?:decision procedure|Solver|Symex|Postprocess)[^:]*: ([0-9.]+)s", item["messageText"])
            if m and "ymex" not in item["messageText"] and "Postprocess" not in item["messageText"]:
                solver += float(m.group(1))
        if "cProverStatus" in item:
            status = item["cProverStatus"]
    return results, "\n".join(msgs), solver, status


def run_job(job, spec_blocks, keep=False, scratch_root=None):
    res = JobResult(job)
    t0 = time.time()
    root = scratch_root or os.environ.get("VERIF_SCRATCH", "/var/tmp")
    work = os.path.join(root, "verif.%d.%s" % (os.getpid(), re.sub(r"[^A-Za-z0-9_.-]", "_", job.name)))
    shutil.rmtree(work, ignore_errors=True)
    os.makedirs(work)
    res.workdir = work
    log_path = os.path.join(work, "log.txt")
    res.log_path = log_path
    try:
        with open(log_path, "w") as log:
            try:
                gb, res.injected = build(job, work, log, spec_blocks)
            except inject.SpecStale as e:
                res.undecided = "SPEC-STALE: %s" % e
                return res
            except BuildError as e:
                res.undecided = "BUILD: %s" % e
                return res
            res.final_gb = gb
            cmd = cbmc_cmd(job, gb)
            res.cmds.append(" ".join(cmd))
            rc, out, dt = run(cmd, job.timeout, job.mem_gb, log)
            log.write(out[-200000:])
            if rc == "timeout":
                res.undecided = "TIMEOUT after %ds" % job.timeout
                return res
            results, msgs, solver, status = parse_cbmc_json(out)
            res.solver_seconds = solver if solver else dt
            if results is None:
                if "std::bad_alloc" in out or "Out of memory" in out or rc in (-6, -9, 134, 137):
                    res.undecided = "OUT-OF-MEMORY (limit %d GB)" % job.mem_gb
                else:
                    errs = re.findall(r'"messageText": "([^"]*)",\s*"messageType": "ERROR"', out)
                    res.undecided = "TOOL: cbmc gave no result (rc=%s): %s" % (rc, "; ".join(errs)[:400] or out[-600:].replace("\n", " "))
                return res
            for pat in SUSPICIOUS:
                for m in re.finditer(pat + r".*", msgs):
                    txt = m.group(0)
                    if "no body" in pat and any(re.search(r"\b%s\b" % re.escape(f), txt) for f in job.nobody_ok):
                        continue
                    res.undecided = "SUSPICIOUS-LOG: " + txt[:200]
            for r in results:
                loc = r.get("sourceLocation", {})
                f = loc.get("file", "")
                line = int(loc.get("line", "0") or 0)
                desc = r.get("description", "")
                o = dict(name=r.get("property", ""), description=desc,
                         status=r.get("status", ""), file=f, line=line,
                         function=loc.get("function", ""),
                         text=_src_line(f, line) if f.startswith("/") else "",
                         vacuity=desc.startswith("VACUITY"))
                res.obligations.append(o)
            if any(o["status"] == "ERROR" for o in res.obligations):
                res.undecided = "OUT-OF-MEMORY or solver error (limit %d GB): %s" % (
                    job.mem_gb, " ".join(l for l in msgs.splitlines() if "memory" in l.lower())[:200])
                return res
            nobody = [o for o in res.obligations if o["status"] == "FAILURE" and ".no-body." in o["name"]]
            if nobody:
                # the code calls a function this job has no model for: nothing the call influences
                # is decided; other FAILUREs remain genuine counterexamples only if they do not depend
                # on the unmodelled result, which we cannot tell - so the job is undecided
                for o in res.obligations:
                    if o["status"] == "FAILURE" and not o["vacuity"]:
                        o["status"] = "UNDECIDED"
                res.undecided = "NO-BODY: %s" % "; ".join(sorted({o["description"] for o in nobody}))[:200]
                return res
            unw = [o for o in res.obligations if o["status"] == "FAILURE" and re.search(r"\.unwind\.\d+$", o["name"])]
            if unw:
                # An unwinding bound was too small for the current code.  A FAILURE of another
                # obligation is still a genuine counterexample (failures are sound under any
                # bound); only the passes are not to be believed.
                for o in unw:
                    o["status"] = "UNDECIDED"
                if not [o for o in res.obligations if o["status"] == "FAILURE" and not o["vacuity"]]:
                    res.undecided = "UNWIND-BOUND: %s (%s)" % (unw[0]["name"], unw[0]["text"][:80])
                    return res
            vac = [o for o in res.obligations if o["vacuity"]]
            res.vacuity_ok = bool(vac) and all(o["status"] == "FAILURE" for o in vac)
            if not vac:
                res.undecided = res.undecided or "VACUITY: harness has no reachability assertion"
            elif not res.vacuity_ok:
                res.undecided = res.undecided or ("VACUOUS: unreachable: " + "; ".join(
                    o["description"] for o in vac if o["status"] != "FAILURE"))
            names = [o["name"] for o in res.obligations]
            for pat in job.expect:
                if not any(re.search(pat, n) for n in names):
                    res.undecided = res.undecided or "MISSING-OBLIGATION: no obligation matches %s" % pat
            if len([o for o in res.obligations if not o["vacuity"]]) == 0:
                res.undecided = res.undecided or "NO-OBLIGATIONS"
            return res
    finally:
        res.seconds = time.time() - t0
        if not keep and not (res.failures and res.undecided is None):
            # keep the work dir only when a trace will be needed
            shutil.rmtree(work, ignore_errors=True)
            res.workdir = None


def trace_for(res, obligation, out_json):
    """Re-run cbmc on one failed obligation with --trace; extract in_* inputs."""
    job = res.job
    if not res.workdir or not res.final_gb:
        return None
    with open(os.path.join(res.workdir, "trace.log"), "w") as log:
        cmd = cbmc_cmd(job, res.final_gb, trace_prop=obligation["name"])
        rc, out, dt = run(cmd, job.timeout, job.mem_gb, log)
    inputs = {}
    raw_trace_tail = []
    try:
        data = json.loads(out[out.index("["):])
        for item in data:
            if isinstance(item, dict) and "result" in item:
                for r in item["result"]:
                    for step in r.get("trace", []):
                        if step.get("stepType") == "assignment":
                            lhs = step.get("lhs", "")
                            base = re.split(r"[\[.]", lhs)[0]
                            if base.startswith("in_") or base.startswith("g_in_"):
                                v = step.get("value", {})
                                inputs[lhs] = v.get("data", v.get("name"))
                        if step.get("stepType") == "failure":
                            raw_trace_tail.append(step.get("reason", ""))
    except Exception as e:
        raw_trace_tail.append("trace parse error: %s" % e)
    return dict(inputs=inputs, failure=raw_trace_tail)
