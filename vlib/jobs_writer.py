"""Jobs on econf_writeFile (C07, C10, C14) - harness/writer.c."""
from .pipeline import Job

Q, T = ("quick", "thorough"), ("thorough",)


def mk(n, vl, cb, ca, d, c, tiers):
    name = "writer.n%d.v%s.b%s.a%s.%s%s" % (n, vl, cb, ca, {"=": "eq", ":": "colon", " ": "sp"}[d], {"#": "hash", ";": "semi"}[c])
    defs = ["-DN=%d" % n, '-DVL="%s"' % vl, '-DCB="%s"' % cb, '-DCA="%s"' % ca, "-DDELIMCH='%s'" % d, "-DCOMMENTCH='%s'" % c]
    return Job(name, ["C07", "C10", "C14", "C04"], "harness/writer.c", sources=["lib/libeconf.c", "lib/helpers.c"],
               stubs=["stubs/writer_tok.c", "stubs/snprintf_real.c", "stubs/str_extra.c", "stubs/strdup_packed.c"],
               contracts=["contracts/bufsiz_small.h", "stubs/asprintf_shim.h"], unwind=14,
               post_unwindset={"econf_writeFile@1": 3, "econf_writeFile@2": n + 1, "econf_writeFile@3": 8, "econf_writeFile@4": 8},
               tier="T2", defines=defs, tiers=tiers, timeout=1500, mem_gb=12, nobody_ok=[".*"],
               functions=["econf_writeFile", "addbrackets", "combine_strings"],
               bounds="%d entries (section, key, quote flag symbolic); value lengths %s, comment-before lengths %s, "
                      "trailing-comment lengths %s (n = absent value; bytes symbolic, comment blocks may contain "
                      "newlines); BUFSIZ scaled to 4" % (n, vl, cb, ca),
               model="token log (format string + arguments) instead of text; M-packed strdup",
               trusted=["stat/fopen/fprintf/fclose models of stubs/writer_tok.c; the TEXT of a token is fixed by its literal "
                        "format string; that text parses back is C02 (parser.entry/header jobs) - composition on paper"],
               statement="C07: every entry is written exactly once; its key line is emitted while the section in effect "
                         "in the output equals the entry's section (group-less entries before the first header); key + "
                         "the object's delimiter + value, quoted iff the flag is set; comment lines with the object's "
                         "comment character. C14: values and comments are written whole although they are longer than "
                         "BUFSIZ. C10: the object is unchanged (pointers, flags, text lengths). C20: file closed.")


def register(J):
    J.append(mk(2, "22", "00", "00", "=", "#", Q))
    J.append(mk(3, "5n0", "050", "005", "=", "#", Q))
    J.append(mk(3, "222", "101", "010", " ", ";", Q))
    J.append(mk(1, "6", "6", "6", ":", "#", Q))
    J.append(mk(4, "2222", "0000", "0000", "=", "#", T))
    J.append(mk(4, "1n01", "0200", "0020", ":", ";", T))
    J.append(mk(3, "555", "555", "000", "=", "#", T))
    J.append(mk(2, "60", "06", "60", " ", "#", T))


def register_ext(J):
    pats = [(".qxnx", Q, 0), ("nqx.x", T, 0), ("xxxxx", Q, 0), ("x.nx.", Q, 1), ("qx.nx", Q, 0), ("nn.x", T, 0), (".x", T, 0), ("xnxnx", Q, 1), ("x.x", T, 0),
            ("..", Q, 0), ("xxxx", Q, 0), ("xxx", T, 0), ("tx.nx", T, 1), ("qxxq.", T, 0), ("xxxxxx", T, 0)]
    for pat, tiers, multi in pats:
        n = len(pat)
        J.append(Job("extvalue." + pat.replace(".", "_"), ["C17", "C14", "C10", "C20", "C04"], "harness/extvalue.c",
                     sources=["lib/libeconf_ext.c", "lib/libeconf.c", "lib/helpers.c", "lib/keyfile.c"],
                     stubs=["stubs/writer_tok.c", "stubs/numtext.c", "stubs/strdup_cap.c", "stubs/realloc_words.c"],
                     contracts=["contracts/bufsiz_small.h", "stubs/asprintf_shim.h"], unwind=18,
                     post_unwindset={"realloc.0": n + 4, "find_key.0": 3}, tier="T2",
                     defines=['-DPAT="%s"' % pat, "-DREALLOC_WORDS=%d" % (n + 3)] + (["-DMULTI=1"] if multi else []),
                     tiers=tiers, timeout=900, mem_gb=8, nobody_ok=[".*"],
                     functions=["econf_getExtValue", "econf_freeExtValue", "econf_getPath", "getCommentsNum", "getPath",
                                "getLineNrNum", "getStringValueNum", "find_key"],
                     bounds="one entry; value shape %r (x symbolic printable byte, q quote, . blank, t tab, n newline); "
                            "path/comments present or absent (symbolic); BUFSIZ scaled to 4" % pat,
                     model="M-real; strdup with concrete capacity (stubs/strdup_cap.c)",
                     statement="C17: the extended value reports path, line number, comments and the value split into "
                               "blank-trimmed lines (one item if it starts with a quote); C14: nothing is cut off although "
                               "the value is longer than BUFSIZ; C10: the stored value is untouched; C20: "
                               "econf_freeExtValue releases the result (also NULL); econf_getPath returns a copy or \"\"."))
